/* C08: the string branch of sexp_write_one (sexp.c): escape of one byte.
 * The verified text is the per-run copy of sexp.c made by groups/C01.py:extract_writeone
 * (self-calls of sexp_write_one redirected to stubs, nothing else changed);
 * sexp_write_char / sexp_write_string are recording stubs.  The branch handles every
 * byte of the string independently of the others (the loop body reads str[0] only), so
 * a one-byte string with a symbolic byte is the inductive step for strings of any length.
 * Contract, with the reader's escape rule (R7RS, sexp_read_string) restated as the
 * specification: between the quotes the text is
 *   - the byte itself, when it is neither '\' nor '"', or
 *   - '\' followed by the escape letter that denotes the byte (\\ \" \a \b \n \r \t), or
 *   - \x HEX+ ; whose value is exactly the byte. */
#include "common.h"
#define WB 16
static char wbuf[WB]; static int wn;
static int vf_putc(int ch) { if (wn < WB - 1) wbuf[wn] = (char)ch; wn++; return 0; }
static int vf_puts(const char *s) { for (; *s; s++) vf_putc(*s); return 0; }
#undef sexp_write_char
#define sexp_write_char(ctx, ch, out) vf_putc(ch)
#undef sexp_write_string
#define sexp_write_string(ctx, s, out) vf_puts(s)
#define VF_REC(ctx, x, out, b) SEXP_VOID
#define VF_WRITE(ctx, x, out) SEXP_VOID
#include "sexp_writeone.c"

static int hexval(int ch) { return (ch >= '0' && ch <= '9') ? ch - '0' : (ch >= 'a' && ch <= 'f') ? ch - 'a' + 10 : (ch >= 'A' && ch <= 'F') ? ch - 'A' + 10 : -1; }
unsigned char in_b;
void h_write_string(void) {
  in_b = nondet_uchar();
  sexp bytes = vf_bytes(1); sexp_bytes_data(bytes)[0] = (char)in_b;
  sexp s = vf_string(bytes, 0, 1);
  sexp_write_one(NULL, s, NULL, 0);
  OBL(wn >= 3 && wn <= 8, "write_string.length: two quotes and 1 to 6 characters");
  OBL(wbuf[0] == '"' && wbuf[wn - 1] == '"', "write_string.quotes: the text is enclosed in double quotes");
  const char *r = wbuf + 1; int n = wn - 2;
  if (r[0] != '\\') {
    OBL(n == 1 && (unsigned char)r[0] == in_b && in_b != '"', "write_string.plain: an unescaped byte stands for itself and is not a quote");
    __CPROVER_assert(0, "REACH: plain byte");
  } else if (n == 2) {
    int v = r[1] == '\\' ? '\\' : r[1] == '"' ? '"' : r[1] == 'a' ? 7 : r[1] == 'b' ? 8 : r[1] == 'n' ? 10 : r[1] == 'r' ? 13 : r[1] == 't' ? 9 : -1;
    OBL(v == in_b, "write_string.mnemonic: the escape letter denotes the byte");
    __CPROVER_assert(0, "REACH: mnemonic escape");
  } else {
    OBL(r[1] == 'x' && r[n - 1] == ';' && n >= 4, "write_string.hex_form: \\x, digits, semicolon");
    int v = 0, ok = 1;
    for (int q = 2; q < n - 1; q++) { int h = hexval(r[q]); if (h < 0) ok = 0; v = v * 16 + h; }
    OBL(ok && v == in_b, "write_string.hex_value: the hexadecimal escape denotes exactly the byte");
    __CPROVER_assert(0, "REACH: hex escape");
  }
  REACH();
}
