/* C08 (character codec clause): for every Unicode scalar value the reader's
 * decoders invert the writer's encoder.
 *   writer: sexp_utf8_char_byte_count + sexp_utf8_encode_char (as sexp_write_utf8_char does)
 *   reader: sexp_decode_utf8_char (#\x literals), sexp_read_utf8_char (strings / ports) */
#include "common.h"
#include "eval.c"
#include "sexp.c"

int in_c;

static int width(int c) { return c < 0x80 ? 1 : c < 0x800 ? 2 : c < 0x10000 ? 3 : 4; }

void h_decode_literal(void) {
  in_c = nondet_int();
  ASSUME(in_c >= 0x80 && in_c <= 0x10FFFF && !(in_c >= 0xD800 && in_c <= 0xDFFF));
  ASSUME(width(in_c) == W);
  unsigned char buf[W + 1];
  int len = sexp_utf8_char_byte_count(in_c);
  OBL(len == W, "char_byte_count.class: width class");
  sexp_utf8_encode_char(buf, W, in_c);
  buf[W] = 0;
  int r = sexp_decode_utf8_char(buf);
  OBL(r == in_c, "sexp_decode_utf8_char.inverse: decode(encode(c)) == c");
  REACH();
}

/* a buffered input port of exact size whose buffer holds exactly the encoded bytes */
void h_read_port(void) {
  in_c = nondet_int();
  ASSUME(in_c >= 0 && in_c <= 0x10FFFF && !(in_c >= 0xD800 && in_c <= 0xDFFF));
  ASSUME(width(in_c) == W);
  char *buf = malloc(W);
  __CPROVER_assume(buf != NULL);
  sexp_utf8_encode_char((unsigned char*)buf, sexp_utf8_char_byte_count(in_c), in_c);
  sexp port = vf_obj(sexp_sizeof(port), SEXP_IPORT);
  sexp_port_buf(port) = buf;
  sexp_port_size(port) = W;
  sexp_port_offset(port) = 0;
  sexp_port_stream(port) = NULL;
  int first = sexp_read_char(NULL, port);
  sexp r = sexp_read_utf8_char(NULL, port, first);
  OBL(sexp_charp(r) && sexp_unbox_character(r) == in_c, "sexp_read_utf8_char.inverse: read(write(c)) == c");
  OBL(sexp_port_offset(port) == W, "sexp_read_utf8_char.consumes: exactly the bytes of the character");
  /* peek-char path: push the character back, the same bytes reappear */
  sexp_push_utf8_char(NULL, in_c, port);
  OBL(sexp_port_offset(port) == 0, "sexp_push_utf8_char.offset: rewinds by the width");
  int cp2 = -1; (void)cp2;
  first = sexp_read_char(NULL, port);
  r = sexp_read_utf8_char(NULL, port, first);
  OBL(sexp_charp(r) && sexp_unbox_character(r) == in_c, "sexp_push_utf8_char.inverse: push then read gives c");
  REACH();
}
