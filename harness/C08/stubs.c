#include "common.h"
#ifdef STUB_sexp_buffered_read_char
int sexp_buffered_read_char (sexp ctx, sexp p) { return EOF; }
#endif
