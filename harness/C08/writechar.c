/* C08: the character branch of sexp_write_one (sexp.c).  The block
 *     } else if (sexp_charp(obj)) { ... }
 * is cut out of /repo/sexp.c on every run (groups/C08.py:extract_writechar, must-fire
 * rules) into writechar_block.inc and woven in here unchanged; the extraction drops
 * every other branch of sexp_write_one.  sexp_write_char / sexp_write_string are
 * recording stubs (the port is outside this obligation).  Contract, from the
 * property (write then read gives the same datum), with the reader's rule for
 * "#\" literals as the specification: the text is "#\" followed by
 *   - one character equal to c (printable ASCII), or
 *   - "x" and hexadecimal digits whose value is exactly c, or
 *   - a name of sexp_char_names whose character is c,
 * for EVERY scalar value c in 0..0x10FFFF. */
#include "common.h"
#include "sexp.c"

#define WB 24
static char wbuf[WB]; static int wn;
static int vf_putc(int ch) { if (wn < WB - 1) wbuf[wn] = (char)ch; wn++; return 0; }
static int vf_puts(const char *s) { for (; *s; s++) vf_putc(*s); return 0; }
#undef sexp_write_char
#define sexp_write_char(ctx, ch, out) vf_putc(ch)
#undef sexp_write_string
#define sexp_write_string(ctx, s, out) vf_puts(s)

static void write_char_block(sexp ctx, sexp obj, sexp out) {
  sexp_uint_t len, c;
  sexp_sint_t i = 0, j, k;
  {
#include "writechar_block.inc"
  }
}

static int hexval(int ch) { return (ch >= '0' && ch <= '9') ? ch - '0' : (ch >= 'a' && ch <= 'f') ? ch - 'a' + 10 : (ch >= 'A' && ch <= 'F') ? ch - 'A' + 10 : -1; }

long in_c;
void h_write_char(void) {
  in_c = nondet_long(); ASSUME(in_c >= 0 && in_c <= 0x10FFFF);
#ifdef CLASS_LO
  ASSUME(in_c >= CLASS_LO && in_c <= CLASS_HI);
#endif
  write_char_block(NULL, sexp_make_character(in_c), NULL);
  OBL(wn >= 3 && wn < WB - 1, "write_char.length: \"#\\\" and at least one, at most 20 further characters");
  OBL(wbuf[0] == '#' && wbuf[1] == '\\', "write_char.prefix: the text starts with #\\");
  const char *r = wbuf + 2; int n = wn - 2;
  if (n == 1) {
    OBL((unsigned char)r[0] == in_c && in_c >= 33 && in_c < 127, "write_char.literal: a single printable character stands for itself");
    __CPROVER_assert(0, "REACH: literal form");
  } else if (r[0] == 'x' && hexval(r[1]) >= 0) {
    long v = 0; int ok = 1;
    for (int q = 1; q < n; q++) { int h = hexval(r[q]); if (h < 0) ok = 0; v = v * 16 + h; }
    OBL(ok, "write_char.hex_digits: only hexadecimal digits follow #\\x");
    OBL(v == in_c, "write_char.hex_value: the digits after #\\x denote exactly the character's scalar value");
    __CPROVER_assert(0, "REACH: hex escape form");
  } else {
    int found = 0;
    for (unsigned q = 0; q < sexp_num_char_names; q++)
      if (!found && strcmp(r, sexp_char_names[q].name) == 0) { found = 1; OBL(sexp_char_names[q].ch == in_c, "write_char.name: the name written denotes the character"); }
    OBL(found, "write_char.known_name: any other text is a name the reader knows");
    __CPROVER_assert(0, "REACH: named form");
  }
  REACH();
}
