/* Contract stubs for callees of the opcode bodies that live outside vm.c:
 * "returns a valid value or an exception object; writes nothing the caller can see". */
#include "vm/vm.h"
sexp sexp_user_exception (sexp ctx, sexp self, const char *msg, sexp x) { return vm_new_exception(); }
sexp sexp_type_exception (sexp ctx, sexp self, sexp_uint_t type_id, sexp x) { return vm_new_exception(); }
sexp sexp_xtype_exception (sexp ctx, sexp self, const char *msg, sexp x) { return vm_new_exception(); }
sexp sexp_range_exception (sexp ctx, sexp obj, sexp start, sexp end) { return vm_new_exception(); }
sexp sexp_cons_op (sexp ctx, sexp self, sexp_sint_t n, sexp head, sexp tail) {
#ifdef VERIF_GC
  vm_collect(ctx);             /* a collection before the pair is allocated; head and tail are not roots by themselves */
#endif
  return vm_new_pair(head, tail);
}
sexp sexp_make_flonum (sexp ctx, double f) { return vm_new_flonum(f); }
/* generic arithmetic hand-over targets: record the operands, return some valid number */
sexp vm_handover_fn[1]; sexp vm_handover_a, vm_handover_b; int vm_handover;
#define HANDOVER(name, id) sexp name (sexp ctx, sexp a, sexp b) { vm_handover = id; vm_handover_a = a; vm_handover_b = b; \
   if (nondet_bool()) return vm_new_exception(); if (nondet_bool()) return vm_new_flonum(0.0); long f = nondet_long(); __CPROVER_assume(f >= SEXP_MIN_FIXNUM && f <= SEXP_MAX_FIXNUM); return sexp_make_fixnum(f); }
HANDOVER(sexp_add, 1) HANDOVER(sexp_sub, 2) HANDOVER(sexp_mul, 3) HANDOVER(sexp_div, 4) HANDOVER(sexp_quotient, 5) HANDOVER(sexp_remainder, 6) HANDOVER(sexp_compare, 7)
sexp sexp_fixnum_to_bignum (sexp ctx, sexp a) { static struct { struct vm_hdr h; signed char sign; unsigned long length; unsigned long data[1]; } big[2]; static int n; __CPROVER_assume(n < 2);
  big[n].h.tag = SEXP_BIGNUM; big[n].length = 1; big[n].sign = sexp_unbox_fixnum(a) < 0 ? -1 : 1; big[n].data[0] = sexp_unbox_fixnum(a) < 0 ? -sexp_unbox_fixnum(a) : sexp_unbox_fixnum(a);
  verif_register(&big[n]); return (sexp)&big[n++]; }
sexp sexp_list2 (sexp ctx, sexp a, sexp b) { return vm_new_pair(a, vm_new_pair(b, SEXP_NULL)); }
sexp sexp_make_ratio (sexp ctx, sexp num, sexp den) { return vm_new_flonum(0.0); }     /* some valid number object */
sexp sexp_ratio_normalize (sexp ctx, sexp rat, sexp in) { return rat; }
sexp sexp_make_exception (sexp ctx, sexp kind, sexp message, sexp irritants, sexp procedure, sexp source) { return vm_new_exception(); }
sexp sexp_alloc_tagged_aux (sexp ctx, size_t size, sexp_uint_t tag) { sexp r = (sexp) malloc(size); __CPROVER_assume(r != NULL); memset(r, 0, size); r->tag = tag; verif_register(r); return r; }
sexp sexp_make_vector_op (sexp ctx, sexp self, sexp_sint_t n, sexp len, sexp dflt) { return nondet_bool() ? vm_new_exception() : vm_new_pair(SEXP_NULL, SEXP_NULL); }  /* some valid object */
sexp sexp_string_utf8_index_set (sexp ctx, sexp self, sexp_sint_t n, sexp str, sexp i, sexp ch) { return SEXP_VOID; }
void sexp_string_utf8_set (sexp ctx, sexp str, sexp index, sexp ch) { }
sexp sexp_ratio_normalize (sexp ctx, sexp rat, sexp in);
