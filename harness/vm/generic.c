/* C01.1: memory safety and stack discipline of one opcode body of sexp_apply,
 * extracted mechanically from vm.c (vm_ops.c, generated per run).
 * Per instance: the opcode (OP), its number of stack arguments (NARGS), the
 * argument class of each (CLS1 = top of stack ...), its stack effect (EFFECT)
 * on normal completion and the number of inline operand words (WORDS). */
#include "vm/vm.h"
#include "vm_ops.c"

#define CAT2(a,b) a##b
#define CAT(a,b) CAT2(a,b)
#define WRAPPER CAT(verif_op_, OP)

#ifndef OBJLEN
#define OBJLEN 2
#endif
sexp in_arg[4]; unsigned long in_word[2]; long in_len;

/* argument classes */
enum { CL_IMM = 0, CL_MINOBJ, CL_PAIR, CL_VECTOR, CL_BYTES, CL_STRING, CL_FIXNUM, CL_FLONUM, CL_CHAR, CL_CURSOR, CL_IPAIR, CL_IVECTOR, CL_IBYTES, CL_ISTRING, CL_ANY };

/* every object is its own top-level variable of exact size: CBMC bounds-checks against the
 * enclosing top-level object, so elements of one array would hide an overrun into a neighbour */
struct g_vec_t { struct vm_hdr h; unsigned long length; sexp data[OBJLEN]; };
struct g_bytes_t { struct vm_hdr h; unsigned long length; char data[OBJLEN + 1]; };
struct g_str_t { struct vm_hdr h; sexp bytes; unsigned long offset, length; };
struct g_min_t { struct vm_hdr h; char pad[8]; };                    /* 16 bytes: the smallest heap object */
static struct g_vec_t g_vec0, g_vec1, g_vec2;
static struct g_bytes_t g_bytes0, g_bytes1, g_bytes2;
static struct g_str_t g_str0, g_str1, g_str2;
static struct g_min_t g_min0, g_min1, g_min2;
#define SLOT3(base, slot) ((slot) == 0 ? &base##0 : (slot) == 1 ? &base##1 : &base##2)

#ifndef EXCL1
#define EXCL1 0xFFFF
#endif
#ifndef EXCL2
#define EXCL2 0xFFFF
#endif
#ifndef EXCL3
#define EXCL3 0xFFFF
#endif
#ifndef EXCLX
#define EXCLX 0            /* extra per-opcode exclusion, an expression over t */
#endif
static int excluded_tag(int slot, unsigned t) { unsigned e = slot == 0 ? EXCL1 : slot == 1 ? EXCL2 : EXCL3; return t == e || (EXCLX); }

static sexp mk_arg(int cls, int slot) {
  if (cls == CL_ANY) cls = nondet_bool() ? CL_IMM : CL_MINOBJ;     /* any value that is not of an accepted type */
  switch (cls) {
  case CL_IMM: return vm_any_immediate();
  case CL_MINOBJ: { unsigned t = nondet_uint(); __CPROVER_assume(t < 2048 && !excluded_tag(slot, t));   /* a wrong-type object: any tag except those the slot accepts */ struct g_min_t *m = SLOT3(g_min, slot); m->h.tag = t; m->h.flags = nondet_uchar() & 31; verif_register(m); return (sexp)m; }
  case CL_PAIR: case CL_IPAIR: { sexp p = vm_new_pair(vm_any_immediate(), vm_any_immediate()); if (cls == CL_IPAIR) sexp_immutablep(p) = 1; return p; }
  case CL_VECTOR: case CL_IVECTOR: { struct g_vec_t *v = SLOT3(g_vec, slot); v->h.tag = SEXP_VECTOR; v->length = OBJLEN; for (int i = 0; i < OBJLEN; i++) v->data[i] = vm_any_immediate();
                    if (cls == CL_IVECTOR) v->h.flags = 1; verif_register(v); return (sexp)v; }
  case CL_BYTES: case CL_IBYTES: { struct g_bytes_t *b = SLOT3(g_bytes, slot); b->h.tag = SEXP_BYTES; b->length = OBJLEN; for (int i = 0; i < OBJLEN; i++) b->data[i] = nondet_uchar();
                    if (cls == CL_IBYTES) b->h.flags = 1; verif_register(b); return (sexp)b; }
  case CL_STRING: case CL_ISTRING: { struct g_bytes_t *b = SLOT3(g_bytes, slot); struct g_str_t *st = SLOT3(g_str, slot);
                    b->h.tag = SEXP_BYTES; b->length = OBJLEN; for (int i = 0; i < OBJLEN; i++) { unsigned char c = nondet_uchar(); __CPROVER_assume(c < 0x80); b->data[i] = c; }
                    verif_register(b); st->h.tag = SEXP_STRING; st->bytes = (sexp)b; st->offset = 0; st->length = OBJLEN;
                    if (cls == CL_ISTRING) st->h.flags = 1; verif_register(st); return (sexp)st; }
  case CL_FIXNUM: { long f = nondet_long(); __CPROVER_assume(f >= SEXP_MIN_FIXNUM && f <= SEXP_MAX_FIXNUM); return sexp_make_fixnum(f); }
  case CL_FLONUM: { double d; unsigned long b = nondet_ulong(); memcpy(&d, &b, 8); return vm_new_flonum(d); }
  case CL_CHAR: { long c = nondet_long(); __CPROVER_assume(c >= 0 && c <= 0x10FFFF); return sexp_make_character(c); }
  default: { long c = nondet_long(); __CPROVER_assume(c >= SEXP_MIN_FIXNUM && c <= SEXP_MAX_FIXNUM); return sexp_make_string_cursor(c); }
  }
}

static sexp code_words[4];          /* typed as sexp: the inline operand reads ((sexp*)ip)[k] fold */

void h_op(void) {
  struct verif_vm S;
  /* context, stack, globals: statically typed, registered */
  vm_ctx_obj.h.tag = SEXP_CONTEXT; verif_register(&vm_ctx_obj);
  vm_stack_obj.h.tag = SEXP_STACK; vm_stack_obj.length = VM_STACK_SLOTS; verif_register(&vm_stack_obj);
  vm_globals_obj.h.tag = SEXP_VECTOR; vm_globals_obj.length = SEXP_G_NUM_GLOBALS; verif_register(&vm_globals_obj);
  sexp ctx = (sexp)&vm_ctx_obj;
  sexp_context_stack(ctx) = (sexp)&vm_stack_obj;
  sexp_context_globals(ctx) = (sexp)&vm_globals_obj;
  sexp_context_saves(ctx) = NULL;
  S.ctx = ctx; S.root_thread = ctx; S.fuel = 100;
  S.stack = vm_stack_obj.data;
  S.fp = VM_BASE; S.top = VM_BASE + 4 + NARGS;               /* frame header (4 slots) then the operands */
  /* sexp_ensure_stack guarantees head room before any instruction runs */
  __CPROVER_assert(S.top + 64 < VM_STACK_SLOTS, "harness.shape: 64 free slots above top");
#if NARGS >= 1
  in_arg[0] = mk_arg(CLS1, 0); S.stack[S.top - 1] = in_arg[0];
#endif
#if NARGS >= 2
  in_arg[1] = mk_arg(CLS2, 1);
#ifdef DIVISOR      /* division classes: a constant divisor, or both operands small */
  in_arg[1] = sexp_make_fixnum(DIVISOR);
#endif
#ifdef SMALL_OPERANDS
  __CPROVER_assume(sexp_unbox_fixnum(in_arg[0]) > -(1L << SMALL_OPERANDS) && sexp_unbox_fixnum(in_arg[0]) < (1L << SMALL_OPERANDS)
                   && sexp_unbox_fixnum(in_arg[1]) > -(1L << SMALL_OPERANDS) && sexp_unbox_fixnum(in_arg[1]) < (1L << SMALL_OPERANDS));
#endif
  S.stack[S.top - 2] = in_arg[1];
#endif
#if NARGS >= 3
  in_arg[2] = mk_arg(CLS3, 2); S.stack[S.top - 3] = in_arg[2];
#endif
  for (int w = 0; w < 4; w++) code_words[w] = (sexp)nondet_ulong();
  S.ip = (unsigned char*)code_words;
  S.bc = SEXP_FALSE; S.cp = SEXP_FALSE; S.tmp = SEXP_VOID; S.self = SEXP_FALSE; S.tmp1 = SEXP_VOID; S.tmp2 = SEXP_VOID;
  S.i = S.j = S.k = 0;
  sexp_sint_t top0 = S.top;
  int ex = WRAPPER(&S);
  OBL(ex == VERIF_EXIT_NEXT || ex == VERIF_EXIT_ERROR || ex == VERIF_EXIT_LOOP, "op.exit: completes, or raises through the error handler");
  if (ex == VERIF_EXIT_NEXT || ex == VERIF_EXIT_LOOP) {
    OBL(S.top == top0 + (EFFECT), "op.stack_effect: top moves by the opcode's stack effect");
    OBL((EFFECT) + NARGS <= 0 || vm_valid(S.stack[S.top - 1]), "op.result_valid: the result slot holds a valid value");
    OBL(S.ip == (unsigned char*)code_words + 8 * (WORDS), "op.ip: consumes its inline operands");
  } else {
    OBL(S.top >= top0 - NARGS + 1 && S.top <= top0 + 1, "op.error_top: on an error the stack top stays within the instruction's own slots (+1 for the condition)");
    OBL(sexp_pointerp(S.stack[S.top - 1]) && verif_registered(S.stack[S.top - 1]) && sexp_pointer_tag(S.stack[S.top - 1]) == SEXP_EXCEPTION, "op.error_value: the condition object is on top of the stack");
  }
  OBL(S.stack == vm_stack_obj.data && S.fp == VM_BASE, "op.frame: frame pointer and stack unchanged");
#ifdef ARITH
#ifdef VERIF_UF_SMUL
#define ARITH_PRODUCT(a, b) ((__int128)lsint_mul_sint(lsint_from_sint(a), b))
#else
#define ARITH_PRODUCT(a, b) ((__int128)(a) * (b))
#endif
  /* C04.1: fixnum fast path, all 2^124 operand pairs: the exact result as a fixnum, or the operands
     handed over intact to the generic (bignum) entry point, or divide-by-zero raised */
  {
    extern int vm_handover; extern sexp vm_handover_a, vm_handover_b;
    long a = sexp_unbox_fixnum(in_arg[0]), b = sexp_unbox_fixnum(in_arg[1]);
    __int128 exact = ARITH == 1 ? (__int128)a + b : ARITH == 2 ? (__int128)a - b : ARITH == 3 ? ARITH_PRODUCT(a, b) :
                     ARITH == 5 ? (b ? (__int128)a / b : 0) : ARITH == 6 ? (b ? (__int128)(a % b) : 0) :
                     ARITH == 7 ? (a < b) : ARITH == 8 ? (a <= b) : (a == b);
    int fits = exact >= SEXP_MIN_FIXNUM && exact <= SEXP_MAX_FIXNUM;
    sexp r = S.stack[S.top - 1];
    if ((ARITH == 5 || ARITH == 6) && b == 0) {
      OBL(ex == VERIF_EXIT_ERROR, "arith.div_by_zero: division by zero raises");
    } else if (ARITH >= 7) {
      OBL(ex == VERIF_EXIT_NEXT && vm_handover == 0 && r == (exact ? SEXP_TRUE : SEXP_FALSE), "arith.compare: exact comparison of the two fixnums");
    } else if (fits) {
      OBL(ex == VERIF_EXIT_NEXT && vm_handover == 0 && sexp_fixnump(r) && sexp_unbox_fixnum(r) == (long)exact, "arith.exact: the result slot is the fixnum of the exact result");
    } else {
      OBL(vm_handover == ARITH, "arith.handover: a result that does not fit a fixnum is handed over to the generic entry point");
      OBL(sexp_pointerp(vm_handover_a) && sexp_pointer_tag(vm_handover_a) == SEXP_BIGNUM && sexp_bignum_length(vm_handover_a) == 1
          && (long)sexp_bignum_sign(vm_handover_a) * (__int128)sexp_bignum_data(vm_handover_a)[0] == a && vm_handover_b == in_arg[1],
          "arith.handover_operands: the operands reach the generic entry point intact (first as a bignum)");
    }
  }
#endif
  REACH();
}
