/* Harness support for the extracted opcode bodies of sexp_apply (vm.c). */
#ifndef VERIF_VM_H
#define VERIF_VM_H
#include "common.h"

/* registry of heap objects (prelude VERIF_KINDFOLD) */
sexp verif_reg[24]; int verif_nreg;
static inline void verif_register(void *p) { __CPROVER_assert(verif_nreg < 24, "harness.bound: object registry sufficed"); if (verif_nreg < 24) verif_reg[verif_nreg++] = (sexp)p; }

#ifndef VM_STACK_SLOTS
#define VM_STACK_SLOTS 96
#endif
/* statically typed layouts of exact size (lengths fold, DESIGN 1.3) */
struct vm_hdr { unsigned int tag; char markedp; unsigned char flags; unsigned short pad0; };
struct vm_stack_t { struct vm_hdr h; unsigned long length, top; sexp data[VM_STACK_SLOTS]; };
struct vm_stack_t vm_stack_obj;                              /* shared by the harness TU and the stub TU (tentative definitions merge) */
/* the context as a plain struct with the layout of struct sexp_struct's context variant (fields of
 * a union written through the accessor casts do not fold); offsets checked against the real type */
struct vm_ctx_t { struct vm_hdr h;
  sexp stack, env, parent, child, globals, dk, params, proc, name, specific, event, result, dl;
  sexp_heap heap; struct sexp_mark_stack_ptr_t mark_stack[SEXP_MARK_STACK_COUNT]; struct sexp_mark_stack_ptr_t *mark_stack_ptr;
  struct sexp_gc_var_t *saves; sexp_sint_t refuel; unsigned char *ip; struct timeval tval;
  char tailp, tracep, timeoutp, waitp, errorp, interruptp; sexp_uint_t last_fp, gc_count, gc_usecs; };
struct vm_ctx_t vm_ctx_obj;
_Static_assert(offsetof(struct vm_ctx_t, stack) == offsetof(struct sexp_struct, value.context.stack)
  && offsetof(struct vm_ctx_t, globals) == offsetof(struct sexp_struct, value.context.globals)
  && offsetof(struct vm_ctx_t, saves) == offsetof(struct sexp_struct, value.context.saves)
  && offsetof(struct vm_ctx_t, ip) == offsetof(struct sexp_struct, value.context.ip)
  && offsetof(struct vm_ctx_t, waitp) == offsetof(struct sexp_struct, value.context.waitp)
  && offsetof(struct vm_ctx_t, last_fp) == offsetof(struct sexp_struct, value.context.last_fp), "context layout");
struct vm_globals_t { struct vm_hdr h; unsigned long length; sexp data[SEXP_G_NUM_GLOBALS]; };
struct vm_globals_t vm_globals_obj;
/* pools: every slot its own top-level object (exact bounds; fields fold) */
struct vm_pair_t { struct vm_hdr h; sexp car, cdr, source; };
struct vm_exc_t { struct vm_hdr h; sexp kind, message, irritants, procedure, source, stack_trace; };
struct vm_flo_t { struct vm_hdr h; double value; };
struct vm_pair_t vm_pair0, vm_pair1, vm_pair2, vm_pair3, vm_pair4, vm_pair5, vm_pair6, vm_pair7, vm_pair8, vm_pair9, vm_pair10, vm_pair11;
#ifndef VM_NPAIRS
#define VM_NPAIRS 6      /* pool size used by a harness (up to 12) */
#endif
struct vm_exc_t vm_exc0, vm_exc1, vm_exc2, vm_exc3;
struct vm_flo_t vm_flo0, vm_flo1, vm_flo2, vm_flo3;
int vm_npairs, vm_nexcs, vm_nflos;
#define VM_PAIR(k) ((k) == 0 ? &vm_pair0 : (k) == 1 ? &vm_pair1 : (k) == 2 ? &vm_pair2 : (k) == 3 ? &vm_pair3 : (k) == 4 ? &vm_pair4 : (k) == 5 ? &vm_pair5 : \
                    (k) == 6 ? &vm_pair6 : (k) == 7 ? &vm_pair7 : (k) == 8 ? &vm_pair8 : (k) == 9 ? &vm_pair9 : (k) == 10 ? &vm_pair10 : &vm_pair11)
#define VM_EXC(k) ((k) == 0 ? &vm_exc0 : (k) == 1 ? &vm_exc1 : (k) == 2 ? &vm_exc2 : &vm_exc3)
#define VM_FLO(k) ((k) == 0 ? &vm_flo0 : (k) == 1 ? &vm_flo1 : (k) == 2 ? &vm_flo2 : &vm_flo3)

static inline sexp vm_new_pair(sexp a, sexp d) {
  __CPROVER_assert(vm_npairs < VM_NPAIRS, "harness.bound: pair pool sufficed");
  __CPROVER_assume(vm_npairs < VM_NPAIRS);
  struct vm_pair_t *p = VM_PAIR(vm_npairs); vm_npairs++;
  p->h.tag = SEXP_PAIR; p->car = a; p->cdr = d; p->source = SEXP_FALSE;
  verif_register(p);
  return (sexp)p;
}
/* contract of the exception constructors: kind a symbol or #f, message a string */
struct vm_msgb_t { struct vm_hdr h; unsigned long length; char data[2]; };
struct vm_msgs_t { struct vm_hdr h; sexp bytes; unsigned long offset, length; };
struct vm_msgb_t vm_msg_bytes; struct vm_msgs_t vm_msg_str;
static inline sexp vm_new_exception(void) {
  __CPROVER_assume(vm_nexcs < 4);
  int k = vm_nexcs++;
  vm_msg_bytes.h.tag = SEXP_BYTES; vm_msg_bytes.length = 1; vm_msg_bytes.data[0] = nondet_uchar(); vm_msg_bytes.data[1] = 0;
  vm_msg_str.h.tag = SEXP_STRING; vm_msg_str.bytes = (sexp)&vm_msg_bytes; vm_msg_str.offset = 0; vm_msg_str.length = 1;
  if (k == 0) { verif_register(&vm_msg_bytes); verif_register(&vm_msg_str); }
  struct vm_exc_t *e = VM_EXC(k);
  e->h.tag = SEXP_EXCEPTION; e->kind = SEXP_FALSE; e->message = (sexp)&vm_msg_str; e->irritants = SEXP_NULL;
  e->procedure = SEXP_FALSE; e->source = SEXP_FALSE; e->stack_trace = SEXP_FALSE;
  verif_register(e);
  return (sexp)e;
}
static inline sexp vm_new_flonum(double d) {
  __CPROVER_assume(vm_nflos < 4);
  int k = vm_nflos++;
  struct vm_flo_t *f = VM_FLO(k);
  f->h.tag = SEXP_FLONUM; f->value = d;
  verif_register(f);
  return (sexp)f;
}

/* ---- alloc_gc for the VM (C02): a collection at every allocation ---------------------------
 * Roots: the stack up to the PUBLISHED top (sexp_context_top(ctx)) and the variables on ctx->saves
 * (self, tmp1, tmp2 of sexp_apply).  Every tracked pool object not reachable from them (directly, or
 * through the car/cdr of a reachable pair or the slots of a reachable tracked vector; two rounds)
 * is reclaimed: havocked and flagged. */
#ifdef VERIF_GC
int vm_pair_dead[6]; int vm_collections;
sexp vm_gc_vec[2]; int vm_gc_vec_len[2]; int vm_gc_vec_dead[2]; int vm_gc_nvec;      /* tracked vectors (continuation box, saved stack) */
static int vm_points_to(sexp holder_val, void *obj) { return holder_val == (sexp)obj; }
static int vm_root_holds(sexp ctx, void *obj) {
  long ptop = (long)sexp_context_top(ctx);
  for (long k = 0; k < VM_STACK_SLOTS; k++) if (k < ptop && vm_stack_obj.data[k] == (sexp)obj) return 1;
  struct sexp_gc_var_t *s = sexp_context_saves(ctx);
  for (int d = 0; d < 8 && s != NULL; d++, s = s->next) if (s->var != NULL && *(s->var) == (sexp)obj) return 1;
  return 0;
}
static void vm_collect(sexp ctx) {
  int live_p[6] = {0}, live_v[2] = {0};
  vm_collections++;
  for (int k = 0; k < 6; k++) if (k < vm_npairs && !vm_pair_dead[k]) live_p[k] = vm_root_holds(ctx, VM_PAIR(k));
  for (int v = 0; v < 2; v++) if (v < vm_gc_nvec && !vm_gc_vec_dead[v]) live_v[v] = vm_root_holds(ctx, vm_gc_vec[v]);
  for (int round = 0; round < 2; round++) {
    for (int k = 0; k < 6; k++) if (k < vm_npairs && live_p[k])
      for (int q = 0; q < 6; q++) if (q < vm_npairs && (VM_PAIR(k)->car == (sexp)VM_PAIR(q) || VM_PAIR(k)->cdr == (sexp)VM_PAIR(q))) live_p[q] = 1;
    for (int v = 0; v < 2; v++) if (v < vm_gc_nvec && live_v[v])
      for (int e = 0; e < 24; e++) if (e < vm_gc_vec_len[v]) {
        sexp x = ((sexp*)((char*)vm_gc_vec[v] + 16))[e];
        for (int q = 0; q < 6; q++) if (q < vm_npairs && x == (sexp)VM_PAIR(q)) live_p[q] = 1;
        for (int w = 0; w < 2; w++) if (w < vm_gc_nvec && x == vm_gc_vec[w]) live_v[w] = 1;
      }
    for (int k = 0; k < 6; k++) if (k < vm_npairs && live_p[k])
      for (int w = 0; w < 2; w++) if (w < vm_gc_nvec && (VM_PAIR(k)->car == vm_gc_vec[w] || VM_PAIR(k)->cdr == vm_gc_vec[w])) live_v[w] = 1;
  }
  for (int k = 0; k < 6; k++) if (k < vm_npairs && !vm_pair_dead[k] && !live_p[k]) { struct vm_pair_t h_; *VM_PAIR(k) = h_; vm_pair_dead[k] = 1; }
  for (int v = 0; v < 2; v++) if (v < vm_gc_nvec && !vm_gc_vec_dead[v] && !live_v[v]) {
    vm_gc_vec_dead[v] = 1;
    ((struct vm_hdr*)vm_gc_vec[v])->tag = nondet_uint(); *(unsigned long*)((char*)vm_gc_vec[v] + 8) = nondet_ulong();
    for (int e = 0; e < 24; e++) if (e < vm_gc_vec_len[v]) ((sexp*)((char*)vm_gc_vec[v] + 16))[e] = (sexp)nondet_ulong();
  }
}
static inline void vm_gc_track_vector(void *v, int len) { if (vm_gc_nvec < 2) { vm_gc_vec[vm_gc_nvec] = (sexp)v; vm_gc_vec_len[vm_gc_nvec] = len; vm_gc_nvec++; } }
#endif

/* an arbitrary immediate: any bit pattern that is not a pointer */
static inline sexp vm_any_immediate(void) {
  unsigned long b = nondet_ulong();
  __CPROVER_assume((b & SEXP_POINTER_MASK) != SEXP_POINTER_TAG);
  return (sexp)b;
}
/* a valid value as the VM sees it: an immediate, or a (registered) heap object */
static inline int vm_valid(sexp x) { return !sexp_pointerp(x) || verif_registered(x); }

struct verif_vm;
/* stack with `nargs` argument slots filled by the caller; fp/top as make_call leaves them */
#define VM_BASE 8          /* slots below the frame: the harness does not care what they hold */
static inline void vm_setup(struct verif_vm *S, int nargs);

#endif
