/* Harness support for the extracted opcode bodies of sexp_apply (vm.c). */
#ifndef VERIF_VM_H
#define VERIF_VM_H
#include "common.h"

/* registry of heap objects (prelude VERIF_KINDFOLD) */
sexp verif_reg[24]; int verif_nreg;
static inline void verif_register(void *p) { if (verif_nreg < 24) verif_reg[verif_nreg++] = (sexp)p; }

#ifndef VM_STACK_SLOTS
#define VM_STACK_SLOTS 96
#endif
/* statically typed layouts of exact size (lengths fold, DESIGN 1.3) */
struct vm_hdr { unsigned int tag; char markedp; unsigned char flags; unsigned short pad0; };
static struct { struct vm_hdr h; unsigned long length, top; sexp data[VM_STACK_SLOTS]; } vm_stack_obj;
static struct sexp_struct vm_ctx_obj;                      /* small-context shim: ~250 bytes */
static struct { struct vm_hdr h; unsigned long length; sexp data[SEXP_G_NUM_GLOBALS]; } vm_globals_obj;
static struct { struct vm_hdr h; sexp car, cdr, source; } vm_pairs[6];
static int vm_npairs;
static struct { struct vm_hdr h; sexp kind, message, irritants, procedure, source, stack_trace; } vm_excs[4];
static int vm_nexcs;
static struct { struct vm_hdr h; double value; } vm_flos[4];
static int vm_nflos;

static inline sexp vm_new_pair(sexp a, sexp d) {
  __CPROVER_assert(vm_npairs < 6, "harness.bound: pair pool sufficed");
  __CPROVER_assume(vm_npairs < 6);
  int k = vm_npairs++;
  vm_pairs[k].h.tag = SEXP_PAIR; vm_pairs[k].car = a; vm_pairs[k].cdr = d; vm_pairs[k].source = SEXP_FALSE;
  verif_register(&vm_pairs[k]);
  return (sexp)&vm_pairs[k];
}
/* contract of the exception constructors: kind a symbol or #f, message a string */
static struct { struct vm_hdr h; unsigned long length; char data[2]; } vm_msg_bytes;
static struct { struct vm_hdr h; sexp bytes; unsigned long offset, length; } vm_msg_str;
static inline sexp vm_new_exception(void) {
  __CPROVER_assume(vm_nexcs < 4);
  int k = vm_nexcs++;
  vm_msg_bytes.h.tag = SEXP_BYTES; vm_msg_bytes.length = 1; vm_msg_bytes.data[0] = nondet_uchar(); vm_msg_bytes.data[1] = 0;
  vm_msg_str.h.tag = SEXP_STRING; vm_msg_str.bytes = (sexp)&vm_msg_bytes; vm_msg_str.offset = 0; vm_msg_str.length = 1;
  if (k == 0) { verif_register(&vm_msg_bytes); verif_register(&vm_msg_str); }
  vm_excs[k].h.tag = SEXP_EXCEPTION; vm_excs[k].kind = SEXP_FALSE; vm_excs[k].message = (sexp)&vm_msg_str; vm_excs[k].irritants = SEXP_NULL;
  vm_excs[k].procedure = SEXP_FALSE; vm_excs[k].source = SEXP_FALSE; vm_excs[k].stack_trace = SEXP_FALSE;
  verif_register(&vm_excs[k]);
  return (sexp)&vm_excs[k];
}
static inline sexp vm_new_flonum(double d) {
  __CPROVER_assume(vm_nflos < 4);
  int k = vm_nflos++;
  vm_flos[k].h.tag = SEXP_FLONUM; vm_flos[k].value = d;
  verif_register(&vm_flos[k]);
  return (sexp)&vm_flos[k];
}

/* an arbitrary immediate: any bit pattern that is not a pointer */
static inline sexp vm_any_immediate(void) {
  unsigned long b = nondet_ulong();
  __CPROVER_assume((b & SEXP_POINTER_MASK) != SEXP_POINTER_TAG);
  return (sexp)b;
}
/* a valid value as the VM sees it: an immediate, or a (registered) heap object */
static inline int vm_valid(sexp x) { return !sexp_pointerp(x) || verif_registered(x); }

struct verif_vm;
/* stack with `nargs` argument slots filled by the caller; fp/top as make_call leaves them */
#define VM_BASE 8          /* slots below the frame: the harness does not care what they hold */
static inline void vm_setup(struct verif_vm *S, int nargs);

#endif
