/* Harness support for the extracted opcode bodies of sexp_apply (vm.c). */
#ifndef VERIF_VM_H
#define VERIF_VM_H
#include "common.h"

/* registry of heap objects (prelude VERIF_KINDFOLD) */
sexp verif_reg[24]; int verif_nreg;
static inline void verif_register(void *p) { if (verif_nreg < 24) verif_reg[verif_nreg++] = (sexp)p; }

#ifndef VM_STACK_SLOTS
#define VM_STACK_SLOTS 96
#endif
/* statically typed layouts of exact size (lengths fold, DESIGN 1.3) */
struct vm_hdr { unsigned int tag; char markedp; unsigned char flags; unsigned short pad0; };
static struct { struct vm_hdr h; unsigned long length, top; sexp data[VM_STACK_SLOTS]; } vm_stack_obj;
/* the context as a plain struct with the layout of struct sexp_struct's context variant (fields of
 * a union written through the accessor casts do not fold); offsets checked against the real type */
struct vm_ctx_t { struct vm_hdr h;
  sexp stack, env, parent, child, globals, dk, params, proc, name, specific, event, result, dl;
  sexp_heap heap; struct sexp_mark_stack_ptr_t mark_stack[SEXP_MARK_STACK_COUNT]; struct sexp_mark_stack_ptr_t *mark_stack_ptr;
  struct sexp_gc_var_t *saves; sexp_sint_t refuel; unsigned char *ip; struct timeval tval;
  char tailp, tracep, timeoutp, waitp, errorp, interruptp; sexp_uint_t last_fp, gc_count, gc_usecs; };
static struct vm_ctx_t vm_ctx_obj;
_Static_assert(offsetof(struct vm_ctx_t, stack) == offsetof(struct sexp_struct, value.context.stack)
  && offsetof(struct vm_ctx_t, globals) == offsetof(struct sexp_struct, value.context.globals)
  && offsetof(struct vm_ctx_t, saves) == offsetof(struct sexp_struct, value.context.saves)
  && offsetof(struct vm_ctx_t, ip) == offsetof(struct sexp_struct, value.context.ip)
  && offsetof(struct vm_ctx_t, waitp) == offsetof(struct sexp_struct, value.context.waitp)
  && offsetof(struct vm_ctx_t, last_fp) == offsetof(struct sexp_struct, value.context.last_fp), "context layout");
static struct { struct vm_hdr h; unsigned long length; sexp data[SEXP_G_NUM_GLOBALS]; } vm_globals_obj;
/* pools: every slot its own top-level object (exact bounds; fields fold) */
struct vm_pair_t { struct vm_hdr h; sexp car, cdr, source; };
struct vm_exc_t { struct vm_hdr h; sexp kind, message, irritants, procedure, source, stack_trace; };
struct vm_flo_t { struct vm_hdr h; double value; };
static struct vm_pair_t vm_pair0, vm_pair1, vm_pair2, vm_pair3, vm_pair4, vm_pair5;
static struct vm_exc_t vm_exc0, vm_exc1, vm_exc2, vm_exc3;
static struct vm_flo_t vm_flo0, vm_flo1, vm_flo2, vm_flo3;
static int vm_npairs, vm_nexcs, vm_nflos;
#define VM_PAIR(k) ((k) == 0 ? &vm_pair0 : (k) == 1 ? &vm_pair1 : (k) == 2 ? &vm_pair2 : (k) == 3 ? &vm_pair3 : (k) == 4 ? &vm_pair4 : &vm_pair5)
#define VM_EXC(k) ((k) == 0 ? &vm_exc0 : (k) == 1 ? &vm_exc1 : (k) == 2 ? &vm_exc2 : &vm_exc3)
#define VM_FLO(k) ((k) == 0 ? &vm_flo0 : (k) == 1 ? &vm_flo1 : (k) == 2 ? &vm_flo2 : &vm_flo3)

static inline sexp vm_new_pair(sexp a, sexp d) {
  __CPROVER_assert(vm_npairs < 6, "harness.bound: pair pool sufficed");
  __CPROVER_assume(vm_npairs < 6);
  struct vm_pair_t *p = VM_PAIR(vm_npairs); vm_npairs++;
  p->h.tag = SEXP_PAIR; p->car = a; p->cdr = d; p->source = SEXP_FALSE;
  verif_register(p);
  return (sexp)p;
}
/* contract of the exception constructors: kind a symbol or #f, message a string */
static struct { struct vm_hdr h; unsigned long length; char data[2]; } vm_msg_bytes;
static struct { struct vm_hdr h; sexp bytes; unsigned long offset, length; } vm_msg_str;
static inline sexp vm_new_exception(void) {
  __CPROVER_assume(vm_nexcs < 4);
  int k = vm_nexcs++;
  vm_msg_bytes.h.tag = SEXP_BYTES; vm_msg_bytes.length = 1; vm_msg_bytes.data[0] = nondet_uchar(); vm_msg_bytes.data[1] = 0;
  vm_msg_str.h.tag = SEXP_STRING; vm_msg_str.bytes = (sexp)&vm_msg_bytes; vm_msg_str.offset = 0; vm_msg_str.length = 1;
  if (k == 0) { verif_register(&vm_msg_bytes); verif_register(&vm_msg_str); }
  struct vm_exc_t *e = VM_EXC(k);
  e->h.tag = SEXP_EXCEPTION; e->kind = SEXP_FALSE; e->message = (sexp)&vm_msg_str; e->irritants = SEXP_NULL;
  e->procedure = SEXP_FALSE; e->source = SEXP_FALSE; e->stack_trace = SEXP_FALSE;
  verif_register(e);
  return (sexp)e;
}
static inline sexp vm_new_flonum(double d) {
  __CPROVER_assume(vm_nflos < 4);
  int k = vm_nflos++;
  struct vm_flo_t *f = VM_FLO(k);
  f->h.tag = SEXP_FLONUM; f->value = d;
  verif_register(f);
  return (sexp)f;
}

/* an arbitrary immediate: any bit pattern that is not a pointer */
static inline sexp vm_any_immediate(void) {
  unsigned long b = nondet_ulong();
  __CPROVER_assume((b & SEXP_POINTER_MASK) != SEXP_POINTER_TAG);
  return (sexp)b;
}
/* a valid value as the VM sees it: an immediate, or a (registered) heap object */
static inline int vm_valid(sexp x) { return !sexp_pointerp(x) || verif_registered(x); }

struct verif_vm;
/* stack with `nargs` argument slots filled by the caller; fp/top as make_call leaves them */
#define VM_BASE 8          /* slots below the frame: the harness does not care what they hold */
static inline void vm_setup(struct verif_vm *S, int nargs);

#endif
