/* contract stub of luint_mul_uint for the modular step h_smul: an uninterpreted function of its arguments */
#include "common.h"
#ifdef STUB_luint_mul_uint
unsigned long __CPROVER_uninterpreted_mulhi(unsigned long, unsigned long, unsigned long);
unsigned long __CPROVER_uninterpreted_mullo(unsigned long, unsigned long, unsigned long);
sexp_luint_t luint_mul_uint(sexp_luint_t a, sexp_uint_t b) {
  sexp_luint_t r;
  r.hi = __CPROVER_uninterpreted_mulhi(a.hi, a.lo, b);
  r.lo = __CPROVER_uninterpreted_mullo(a.hi, a.lo, b);
  return r;
}
#endif
