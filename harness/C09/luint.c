/* C09 (numeric build variant clause): with SEXP_USE_CUSTOM_LONG_LONGS=1 every
 * struct helper of include/chibi/bignum.h equals the native 128-bit operation
 * on the same bits, for all inputs.  Loop-free: proved. */
#include "common.h"
#if !SEXP_USE_CUSTOM_LONG_LONGS
#error "this harness must be compiled with -DSEXP_USE_CUSTOM_LONG_LONGS=1"
#endif
typedef unsigned __int128 u128;
typedef __int128 s128;

unsigned long in_ahi, in_alo, in_bhi, in_blo, in_b;
unsigned in_shift;

static u128 U(sexp_luint_t x) { return ((u128)x.hi << 64) | x.lo; }
static s128 S(sexp_lsint_t x) { return (s128)(((u128)(unsigned long)x.hi << 64) | x.lo); }
static sexp_luint_t mkU(unsigned long hi, unsigned long lo) { sexp_luint_t r; r.hi = hi; r.lo = lo; return r; }
static sexp_lsint_t mkS(unsigned long hi, unsigned long lo) { sexp_lsint_t r; r.hi = (long)hi; r.lo = lo; return r; }

static void inputs(void) {
  in_ahi = nondet_ulong(); in_alo = nondet_ulong(); in_bhi = nondet_ulong(); in_blo = nondet_ulong();
  in_b = nondet_ulong(); in_shift = nondet_uint();
}

void h_addsub(void) {
  inputs();
  sexp_luint_t a = mkU(in_ahi, in_alo), b = mkU(in_bhi, in_blo);
  OBL(U(luint_add(a, b)) == (u128)(U(a) + U(b)), "luint_add.native: equals 128-bit addition");
  OBL(U(luint_add_uint(a, in_b)) == (u128)(U(a) + in_b), "luint_add_uint.native: equals 128-bit addition of a word");
  OBL(U(luint_sub(a, b)) == (u128)(U(a) - U(b)), "luint_sub.native: equals 128-bit subtraction");
  OBL(S(lsint_negate(mkS(in_ahi, in_alo))) == (s128)(0 - U(a)), "lsint_negate.native: equals 128-bit negation");
  REACH();
}

void h_shift(void) {
  inputs();
  ASSUME(in_shift < 128);
  sexp_luint_t a = mkU(in_ahi, in_alo);
  OBL(U(luint_shl(a, in_shift)) == (u128)(U(a) << in_shift), "luint_shl.native: equals 128-bit left shift (shift < 128)");
  OBL(U(luint_shr(a, in_shift)) == (u128)(U(a) >> in_shift), "luint_shr.native: equals 128-bit right shift (shift < 128)");
  REACH();
}

void h_cmp(void) {
  inputs();
  sexp_luint_t a = mkU(in_ahi, in_alo), b = mkU(in_bhi, in_blo);
  sexp_lsint_t sa = mkS(in_ahi, in_alo);
  OBL(luint_lt(a, b) == (U(a) < U(b)), "luint_lt.native");
  OBL(luint_eq(a, b) == (U(a) == U(b)), "luint_eq.native");
  OBL(U(luint_and(a, b)) == (U(a) & U(b)), "luint_and.native");
  OBL(lsint_lt_0(sa) == (S(sa) < 0), "lsint_lt_0.native");
  OBL((sexp_lsint_fits_sint(sa) != 0) == ((s128)(sexp_sint_t)S(sa) == S(sa)), "sexp_lsint_fits_sint.native");
  OBL((sexp_luint_fits_uint(a) != 0) == ((u128)(sexp_uint_t)U(a) == U(a)), "sexp_luint_fits_uint.native");
  OBL((luint_is_fixnum(a) != 0) == (U(a) <= (u128)SEXP_MAX_FIXNUM), "luint_is_fixnum.native");
  OBL((lsint_is_fixnum(sa) != 0) == (((s128)SEXP_MIN_FIXNUM <= S(sa)) && (S(sa) <= (s128)SEXP_MAX_FIXNUM)), "lsint_is_fixnum.native");
  OBL(S(lsint_from_sint((sexp_sint_t)in_b)) == (s128)(sexp_sint_t)in_b, "lsint_from_sint.native: sign extension");
  OBL(U(luint_from_uint(in_b)) == (u128)in_b, "luint_from_uint.native: zero extension");
  OBL(lsint_to_sint(sa) == (sexp_sint_t)S(sa), "lsint_to_sint.native: low word");
  OBL(luint_to_uint(a) == (sexp_uint_t)U(a), "luint_to_uint.native: low word");
  OBL(lsint_to_sint_hi(sa) == (sexp_sint_t)(S(sa) >> 64), "lsint_to_sint_hi.native: high word");
  OBL(luint_to_uint_hi(a) == (sexp_uint_t)(U(a) >> 64), "luint_to_uint_hi.native: high word");
  OBL(U(luint_from_lsint(sa)) == (u128)S(sa), "luint_from_lsint.native: same bits");
  OBL(S(lsint_from_luint(a)) == (s128)U(a), "lsint_from_luint.native: same bits");
  REACH();
}

/* a*b mod 2^128 written as the base-2^32 schoolbook expansion: the 8 partial
 * products are 32x32->64 multiplications, the same ones the helper computes, so
 * the solver only has to match additions and shifts.  The identity
 * "expansion == (u128)a*b" itself is elementary algebra and is listed as an
 * assumption in the evidence (the direct comparison timed out on every back end). */
static u128 schoolbook(u128 a, unsigned long b) {
  unsigned long al[4] = { (unsigned long)(a & 0xFFFFFFFF), (unsigned long)((a >> 32) & 0xFFFFFFFF),
                          (unsigned long)((a >> 64) & 0xFFFFFFFF), (unsigned long)((a >> 96) & 0xFFFFFFFF) };
  unsigned long bl[2] = { b & 0xFFFFFFFF, b >> 32 };
  u128 r = 0;
  r += (u128)(al[0] * bl[0]);
  r += (u128)(al[1] * bl[0]) << 32;
  r += (u128)(al[2] * bl[0]) << 64;
  r += (u128)(al[3] * bl[0]) << 96;
  r += (u128)(al[0] * bl[1]) << 32;
  r += (u128)(al[1] * bl[1]) << 64;
  r += (u128)(al[2] * bl[1]) << 96;
  return r;
}

void h_mul(void) {
  inputs();
  sexp_luint_t a = mkU(in_ahi, in_alo);
  OBL(U(luint_mul_uint(a, in_b)) == schoolbook(U(a), in_b), "luint_mul_uint.schoolbook: equals the base-2^32 expansion of a*b mod 2^128");
  REACH();
}

/* lsint_mul_sint against the CONTRACT of luint_mul_uint (modular step): the
 * callee is replaced by an uninterpreted function M(hi,lo,b) - any function at
 * all - and the caller must produce sign * M(|a|,|b|) as a 128-bit two's
 * complement value.  Together with h_mul (M == a*b mod 2^128) this gives the
 * native signed product. */
unsigned long __CPROVER_uninterpreted_mulhi(unsigned long, unsigned long, unsigned long);
unsigned long __CPROVER_uninterpreted_mullo(unsigned long, unsigned long, unsigned long);
void h_smul(void) {
  inputs();
  sexp_lsint_t a = mkS(in_ahi, in_alo);
  sexp_sint_t b = (sexp_sint_t)in_b;
  u128 ma = S(a) < 0 ? (u128)0 - (u128)S(a) : (u128)S(a);
  unsigned long mb = b < 0 ? 0UL - (unsigned long)b : (unsigned long)b;
  u128 mag = ((u128)__CPROVER_uninterpreted_mulhi((unsigned long)(ma >> 64), (unsigned long)ma, mb) << 64)
             | __CPROVER_uninterpreted_mullo((unsigned long)(ma >> 64), (unsigned long)ma, mb);
  s128 want = ((S(a) < 0) != (b < 0)) ? (s128)((u128)0 - mag) : (s128)mag;
  OBL(S(lsint_mul_sint(a, b)) == want, "lsint_mul_sint.sign_magnitude: sign(a)sign(b) * luint_mul_uint(|a|,|b|), mod 2^128");
  REACH();
}

/* luint_div: the two early exits, for all inputs */
void h_div_early(void) {
  inputs();
  sexp_luint_t a = mkU(in_ahi, in_alo), b = mkU(in_bhi, in_blo);
  ASSUME(U(b) != 0 && U(a) <= U(b));
  OBL(U(luint_div(a, b)) == U(a) / U(b), "luint_div.early: a <= b gives 0 or 1");
  REACH();
}
