/* C18 (C core): lib/srfi/95/qsort.c.  The sort returns an ordered permutation of its input, stable,
 * for vectors of N elements (N a constant of the instance).  Elements are N distinct flonum objects
 * whose values are symbolic small integers, so that ties exist and stability is observable through
 * object identity.  The comparator of the generic path is a stub for sexp_apply that orders by value. */
#include "vm/vm.h"
#include "lib/srfi/95/qsort.c"

#ifndef N
#define N 3
#endif
struct vecN { struct vm_hdr h; unsigned long length; sexp data[N]; };
static struct vecN in_vec, scratch_vec;
static struct vm_flo_t el0, el1, el2, el3, el4, el5;
#define EL(k) ((k) == 0 ? &el0 : (k) == 1 ? &el1 : (k) == 2 ? &el2 : (k) == 3 ? &el3 : (k) == 4 ? &el4 : &el5)
int in_key[6];
struct proc_t { struct vm_hdr h; sexp bc, vars; char flags; sexp_proc_num_args_t num_args; };
static struct proc_t less_obj;
int apply_calls;

static int idx_of(sexp x) { for (int k = 0; k < N; k++) if (x == (sexp)EL(k)) return k; return -1; }

/* comparator stub: (less a b) == value(a) < value(b); a consistent strict weak order.
 * With a key procedure (-DVERIF_GC, group merge_sort_key): (key x) allocates a fresh key object (a pair holding the element's
 * index) and every application runs an adversarial collection first, which reclaims and havocs every pool pair that is not
 * reachable from the variables on ctx->saves - a key object the sort does not keep rooted turns into garbage. */
static struct proc_t key_obj;
sexp sexp_apply (sexp ctx, sexp proc, sexp args) {
  apply_calls++;
#ifdef VERIF_GC
  vm_collect(ctx);
  if (proc == (sexp)&key_obj) {
    int ix = idx_of(sexp_car(args));
    __CPROVER_assert(ix >= 0, "sort.key_arg: the key procedure is applied to an element of the input");
    return vm_new_pair(sexp_make_fixnum(ix), SEXP_NULL);
  }
  sexp ka = sexp_car(args), kb = sexp_car(sexp_cdr(args));
  __CPROVER_assert(proc == (sexp)&less_obj && sexp_pairp(ka) && sexp_pairp(kb), "sort.comparator_keys: the comparator is applied to two key objects");
  long ja = sexp_unbox_fixnum(sexp_car(ka)), jb = sexp_unbox_fixnum(sexp_car(kb));
  __CPROVER_assert(sexp_fixnump(sexp_car(ka)) && sexp_fixnump(sexp_car(kb)) && ja >= 0 && ja < N && jb >= 0 && jb < N, "gc.key_live: the key objects handed to the comparator are intact (not reclaimed between the two key computations)");
  __CPROVER_assume(ja >= 0 && ja < N && jb >= 0 && jb < N);
  return in_key[ja] < in_key[jb] ? SEXP_TRUE : SEXP_FALSE;
#else
  sexp a = sexp_car(args), b = sexp_car(sexp_cdr(args));
  int ia = idx_of(a), ib = idx_of(b);
  __CPROVER_assert(proc == (sexp)&less_obj && ia >= 0 && ib >= 0, "sort.comparator_args: the comparator is applied to two elements of the input");
  return in_key[ia] < in_key[ib] ? SEXP_TRUE : SEXP_FALSE;
#endif
}
sexp sexp_make_vector_op (sexp ctx, sexp self, sexp_sint_t n, sexp len, sexp dflt) {
  __CPROVER_assert(len == sexp_make_fixnum(N), "sort.scratch_length: the scratch vector has the length of the input");
  scratch_vec.h.tag = SEXP_VECTOR; scratch_vec.length = N; for (int k = 0; k < N; k++) scratch_vec.data[k] = dflt; verif_register(&scratch_vec); return (sexp)&scratch_vec;
}
sexp sexp_listp_op (sexp ctx, sexp self, sexp_sint_t n, sexp x) { return sexp_pairp(x) || sexp_nullp(x) ? SEXP_TRUE : SEXP_FALSE; }   /* proper-list test; inputs here are vectors */
sexp sexp_list_to_vector_op (sexp ctx, sexp self, sexp_sint_t n, sexp ls) { __CPROVER_assert(0, "sort.vector_input: not reached for a vector"); __CPROVER_assume(0); return SEXP_VOID; }
sexp sexp_compare (sexp ctx, sexp a, sexp b) { __CPROVER_assert(0, "sort.same_type: elements have the same type"); return SEXP_ZERO; }

static void setup(sexp *ctxp) {
  vm_ctx_obj.h.tag = SEXP_CONTEXT; verif_register(&vm_ctx_obj);
  vm_globals_obj.h.tag = SEXP_VECTOR; vm_globals_obj.length = SEXP_G_NUM_GLOBALS; verif_register(&vm_globals_obj);
  sexp ctx = (sexp)&vm_ctx_obj; sexp_context_globals(ctx) = (sexp)&vm_globals_obj; sexp_context_saves(ctx) = NULL;
  in_vec.h.tag = SEXP_VECTOR; in_vec.length = N; verif_register(&in_vec);
  for (int k = 0; k < N; k++) {
    in_key[k] = nondet_int(); __CPROVER_assume(in_key[k] >= 0 && in_key[k] <= 3);
    EL(k)->h.tag = SEXP_FLONUM; EL(k)->value = (double)in_key[k]; verif_register(EL(k));
    in_vec.data[k] = (sexp)EL(k);
  }
  less_obj.h.tag = SEXP_PROCEDURE; verif_register(&less_obj);
  *ctxp = ctx;
}

static void check_sorted(sexp *out, const char *who) {
  int seen[6] = {0};
  for (int p = 0; p < N; p++) {
    int k = idx_of(out[p]);
    OBL(k >= 0, "sort.permutation_members: every output element is an input element");
    if (k >= 0) seen[k]++;
  }
  for (int k = 0; k < N; k++) OBL(seen[k] == 1, "sort.permutation: every input element occurs exactly once in the output");
  for (int p = 0; p + 1 < N; p++) {
    int a = idx_of(out[p]), b = idx_of(out[p + 1]);
    if (a >= 0 && b >= 0) {
      OBL(in_key[a] <= in_key[b], "sort.ordered: the output is in non-decreasing order");
      OBL(in_key[a] != in_key[b] || a < b, "sort.stable: equal elements keep their input order");
    }
  }
}

void h_merge_sort(void) {                 /* fast path: the built-in object comparison, arrays of N */
  sexp ctx; setup(&ctx);
  sexp_merge_sort(ctx, in_vec.data, scratch_vec.data, 0, N - 1);
  check_sorted(in_vec.data, "merge_sort");
  REACH();
}

void h_merge_sort_less(void) {            /* generic path: comparator procedure, no key */
  sexp ctx; setup(&ctx);
  sexp r = sexp_merge_sort_less(ctx, in_vec.data, scratch_vec.data, 0, N - 1, (sexp)&less_obj, SEXP_FALSE);
  OBL(!sexp_exceptionp(r), "merge_sort_less.no_error: a total comparator raises nothing");
  check_sorted(in_vec.data, "merge_sort_less");
  OBL(sexp_context_saves(ctx) == NULL, "gc.release: preserve chain restored");
  REACH();
}

#ifdef VERIF_GC
void h_merge_sort_key(void) {             /* comparator and key procedure, a collection at every application */
  sexp ctx; setup(&ctx);
  key_obj.h.tag = SEXP_PROCEDURE; verif_register(&key_obj);
  vm_stack_obj.h.tag = SEXP_STACK; vm_stack_obj.length = VM_STACK_SLOTS; vm_stack_obj.top = 0; verif_register(&vm_stack_obj); sexp_context_stack(ctx) = (sexp)&vm_stack_obj;
  sexp r = sexp_merge_sort_less(ctx, in_vec.data, scratch_vec.data, 0, N - 1, (sexp)&less_obj, (sexp)&key_obj);
  OBL(!sexp_exceptionp(r), "merge_sort_key.no_error: total comparator and key raise nothing");
  check_sorted(in_vec.data, "merge_sort_key");
  OBL(sexp_context_saves(ctx) == NULL, "gc.release: preserve chain restored");
  REACH();
}
#endif

/* (sort! vec >): the built-in comparison with an inverse opcode (>), no key - the fast path sorts ascending and reverses */
static struct sexp_struct inv_op;
void h_sort_x_inverse(void) {
  sexp ctx; setup(&ctx);
  inv_op.tag = SEXP_OPCODE; verif_register(&inv_op);
  sexp_opcode_class((sexp)&inv_op) = SEXP_OPC_ARITHMETIC_CMP; sexp_opcode_inverse((sexp)&inv_op) = 1; sexp_opcode_code((sexp)&inv_op) = SEXP_OP_LT;
  sexp r = sexp_sort_x(ctx, SEXP_FALSE, 3, (sexp)&in_vec, (sexp)&inv_op, SEXP_FALSE);
  OBL(sexp_vectorp(r) && sexp_vector_length(r) == N, "sort_x.result: a vector of the input length");
  if (sexp_vectorp(r) && sexp_vector_length(r) == N) {
    sexp *out = sexp_vector_data(r); int seen[6] = {0};
    for (int p = 0; p < N; p++) { int k = idx_of(out[p]); OBL(k >= 0, "sort.permutation_members: every output element is an input element"); if (k >= 0) seen[k]++; }
    for (int k = 0; k < N; k++) OBL(seen[k] == 1, "sort.permutation: every input element occurs exactly once in the output");
    for (int p = 0; p + 1 < N; p++) {
      int a = idx_of(out[p]), b = idx_of(out[p + 1]);
      if (a >= 0 && b >= 0) {
        OBL(in_key[a] >= in_key[b], "sort.ordered_desc: with > the output is in non-increasing order");
        OBL(in_key[a] != in_key[b] || a < b, "sort.stable: equal elements keep their input order (also when sorting with >)");
      }
    }
  }
  OBL(sexp_context_saves(ctx) == NULL, "gc.release: preserve chain restored");
  REACH();
}

void h_sort_x(void) {                      /* the API entry: (sort! vec less) */
  sexp ctx; setup(&ctx);
  sexp r = sexp_sort_x(ctx, SEXP_FALSE, 3, (sexp)&in_vec, (sexp)&less_obj, SEXP_FALSE);
  OBL(sexp_vectorp(r) && sexp_vector_length(r) == N, "sort_x.result: a vector of the input length");
  if (sexp_vectorp(r) && sexp_vector_length(r) == N) check_sorted(sexp_vector_data(r), "sort_x");
  OBL(sexp_context_saves(ctx) == NULL, "gc.release: preserve chain restored");
  REACH();
}
