#include "vm/vm.h"
sexp sexp_type_exception (sexp ctx, sexp self, sexp_uint_t type_id, sexp x) { return vm_new_exception(); }
sexp sexp_list2 (sexp ctx, sexp a, sexp b) { return vm_new_pair(a, vm_new_pair(b, SEXP_NULL)); }
sexp sexp_write_to_string (sexp ctx, sexp obj) { __CPROVER_assert(0, "sort.no_symbols: not reached"); return SEXP_VOID; }
sexp_sint_t sexp_bignum_compare (sexp a, sexp b) { __CPROVER_assert(0, "sort.no_bignums: not reached"); return 0; }
sexp sexp_ratio_compare (sexp ctx, sexp a, sexp b) { __CPROVER_assert(0, "sort.no_ratios: not reached"); return SEXP_ZERO; }
