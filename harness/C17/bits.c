/* C17: lib/srfi/151/bit.c against two's-complement semantics on the
 * mathematical value: TC(x) = V(x) as a 704-bit signed bit-vector (sign
 * extension is what "infinite two's complement" means for a bounded width:
 * all operands here are < 2^(64*4), the vector has 11 words).
 * Shape-enumerated: operand kinds (fixnum/bignum), lengths and signs are
 * constants of the instance; words / fixnum values symbolic. */
#include "bn.h"
#include "lib/srfi/151/bit.c"

unsigned long in_a[8], in_b[8];
long in_f, in_g, in_c;
int in_sa, in_sb;

#define CAT2(a,b) a##b
#define CAT(a,b) CAT2(a,b)
#ifndef KA
#define KA 1
#endif
#ifndef KB
#define KB 1
#endif
#ifndef SGA
#define SGA 1
#endif
#ifndef SGB
#define SGB 1
#endif
#ifndef LB
#define LB 1
#define HB 1
#endif

#define SETUP_CTX() static struct sexp_struct ctx_obj; sexp ctx = (sexp)&ctx_obj; ctx_obj.tag = SEXP_CONTEXT

/* operand x: a bignum of the instance's shape and sign (normalised: not a fixnum value), or a fixnum of the instance's sign */
#define SETUP_X() \
  static struct CAT(bn_,LA) a_obj; sexp x; \
  if (KA) { x = (sexp)&a_obj; in_sa = SGA; a_obj.tag = SEXP_BIGNUM; a_obj.length = LA; a_obj.sign = SGA; \
    for (int i = 0; i < HA; i++) { in_a[i] = nondet_ulong(); a_obj.data[i] = in_a[i]; } \
    if (HA > 1) ASSUME(in_a[HA-1] != 0); \
    bn_known(x, HA); ASSUME(!sexp_fixnump(sexp_bignum_normalize(x))); } \
  else { in_f = nondet_long(); ASSUME(in_f >= SEXP_MIN_FIXNUM && in_f <= SEXP_MAX_FIXNUM); ASSUME(SGA > 0 ? in_f >= 0 : in_f < 0); x = sexp_make_fixnum(in_f); }

#define SETUP_Y() \
  static struct CAT(bn_,LB) b_obj; sexp y; \
  if (KB) { y = (sexp)&b_obj; in_sb = SGB; b_obj.tag = SEXP_BIGNUM; b_obj.length = LB; b_obj.sign = SGB; \
    for (int i = 0; i < HB; i++) { in_b[i] = nondet_ulong(); b_obj.data[i] = in_b[i]; } \
    if (HB > 1) ASSUME(in_b[HB-1] != 0); \
    bn_known(y, HB); ASSUME(!sexp_fixnump(sexp_bignum_normalize(y))); } \
  else { in_g = nondet_long(); ASSUME(in_g >= SEXP_MIN_FIXNUM && in_g <= SEXP_MAX_FIXNUM); ASSUME(SGB > 0 ? in_g >= 0 : in_g < 0); y = sexp_make_fixnum(in_g); }

#define IS_INT(r) (sexp_fixnump(r) || (sexp_pointerp(r) && sexp_pointer_tag(r) == SEXP_BIGNUM))
#define DONE() OBL(!bn_pool_exhausted, "alloc.bound: allocation pool sufficed"); OBL(sexp_context_saves(ctx) == NULL, "gc.release: preserved-variable chain restored on return"); REACH()

#define BITOP(NAME, FN, OP) \
void NAME(void) { \
  SETUP_CTX(); SETUP_X(); SETUP_Y(); \
  swide vx = bn_val(x), vy = bn_val(y); \
  sexp r = FN(ctx, SEXP_FALSE, 2, x, y); \
  OBL(IS_INT(r), #FN ".result: an exact integer"); \
  OBL(bn_val(r) == (vx OP vy), #FN ".value: two's-complement " #OP " of the operands"); \
  OBL(bn_canonical(r), #FN ".canonical: fixnum iff it fits"); \
  OBL(bn_val(x) == vx && bn_val(y) == vy, #FN ".frame: operands unchanged"); \
  DONE(); }

BITOP(h_bit_and, sexp_bit_and, &)
BITOP(h_bit_ior, sexp_bit_ior, |)
BITOP(h_bit_xor, sexp_bit_xor, ^)

static unsigned spec_popcount(uwide v) { unsigned n = 0; for (int k = 0; k < 11; k++) n += __builtin_popcountl((unsigned long)(v >> (64 * k))); return n; }

void h_bit_count(void) {
  SETUP_CTX(); SETUP_X();
  swide vx = bn_val(x);
  sexp r = sexp_bit_count(ctx, SEXP_FALSE, 1, x);
  OBL(sexp_fixnump(r), "sexp_bit_count.result: a fixnum");
  /* SRFI 151: population count of x for x >= 0, of (bitwise-not x) for x < 0 */
  OBL(sexp_unbox_fixnum(r) == (long)spec_popcount((uwide)(vx < 0 ? ~vx : vx)), "sexp_bit_count.value: popcount of x, or of ~x for negative x");
  (void)ctx; REACH();
}

/* n is the integer-length of v iff the magnitude m (v, or ~v for negative v) has its highest set bit at n-1 */
static int spec_is_length(swide v, long n) { uwide m = (uwide)(v < 0 ? ~v : v); return n >= 0 && n < 700 && (n == 0 ? m == 0 : (m >> (n - 1)) == 1); }

void h_integer_length(void) {
  SETUP_CTX(); SETUP_X();
  swide vx = bn_val(x);
  sexp r = sexp_integer_length(ctx, SEXP_FALSE, 1, x);
  OBL(sexp_fixnump(r), "sexp_integer_length.result: a fixnum");
  OBL(spec_is_length(vx, sexp_unbox_fixnum(r)), "sexp_integer_length.value: bits needed for x (~x for negative x)");
  (void)ctx; REACH();
}

void h_bit_set_p(void) {
  SETUP_CTX(); SETUP_X();
  swide vx = bn_val(x);
  in_c = nondet_long(); ASSUME(in_c >= 0 && in_c <= SEXP_MAX_FIXNUM);
  sexp r = sexp_bit_set_p(ctx, SEXP_FALSE, 2, sexp_make_fixnum(in_c), x);
  OBL(r == SEXP_TRUE || r == SEXP_FALSE, "sexp_bit_set_p.result: a boolean");
  int want = in_c < 700 ? (int)((vx >> in_c) & 1) : (vx < 0);
  OBL((r == SEXP_TRUE) == want, "sexp_bit_set_p.value: bit i of the two's-complement string");
  (void)ctx; REACH();
}

/* arithmetic-shift: count = DIR * (64*OFF + bs), word offset OFF a constant of the instance, bit shift bs symbolic */
#ifndef OFF
#define OFF 0
#endif
#ifndef DIR
#define DIR 1
#endif
#ifndef BS
#define BS (-1)
#endif
void h_shift(void) {
  SETUP_CTX(); SETUP_X();
  /* stated on magnitudes (no 512-bit negation or signed shift):
     x >= 0: |r| = |x| << n  or  |x| >> n;   x < 0: |r| = |x| << n  or  ceil(|x| / 2^n)  (floor of a negative quotient) */
  uwide mx = KA ? bn_mag(x) : (uwide)(unsigned long)(in_f < 0 ? -in_f : in_f);
  int negx = SGA < 0;
#if BS >= 0
  long bs = BS;                   /* bit shift enumerated for this instance: the count is a constant and both direction arms fold */
#else
  long bs = nondet_long(); ASSUME(bs >= 0 && bs < 64);
#endif
  in_c = DIR * (64L * OFF + bs);
  /* allocation shapes: the result buffer has len -+ offset + 1 words, offset = |c| / 64 == OFF */
  if (KA) { if (DIR > 0) { bn_expect_words[0] = HA + OFF + 1; bn_expect_n = 1; } else { bn_expect_words[0] = HA >= OFF ? HA - OFF + 1 : 0; bn_expect_n = 1; } }
  else if (DIR > 0) { bn_expect_words[0] = 1; bn_expect_words[1] = 1 + OFF + 1; bn_expect_n = 2; }
  sexp r = sexp_arithmetic_shift(ctx, SEXP_FALSE, 2, x, sexp_make_fixnum(in_c));
  OBL(IS_INT(r), "sexp_arithmetic_shift.result: an exact integer");
  unsigned long nb = 64 * OFF + bs;
  uwide wantm = DIR > 0 ? (mx << nb) : (negx ? ((mx + (((uwide)1 << nb) - 1)) >> nb) : (mx >> nb));
  uwide gotm = sexp_fixnump(r) ? (uwide)(unsigned long)(sexp_unbox_fixnum(r) < 0 ? -sexp_unbox_fixnum(r) : sexp_unbox_fixnum(r)) : bn_mag(r);
  int gotneg = sexp_fixnump(r) ? sexp_unbox_fixnum(r) < 0 : sexp_bignum_sign(r) < 0;
  OBL(gotm == wantm, "sexp_arithmetic_shift.value: x * 2^c for c >= 0, floor(x / 2^-c) for c < 0 (magnitude)");
  OBL(gotm == 0 || gotneg == negx, "sexp_arithmetic_shift.sign: sign of the operand");
  OBL(bn_canonical(r), "sexp_arithmetic_shift.canonical: fixnum iff it fits");
  OBL(!KA || bn_mag(x) == mx, "sexp_arithmetic_shift.frame: operand unchanged");
  DONE();
}

/* arithmetic-shift, fixnum operand, ANY fixnum count (proved: the only loop is log2i's 64 steps).
 * The fixnum path either returns the exact fixnum or hands the operand over to the bignum path
 * (checked by group `shift`); the hand-over point is sexp_bignum_hi, replaced by a stub that ends
 * the path, so every completed path is a fixnum-path result. */
void h_shift_fixnum(void) {
  SETUP_CTX();
  in_f = nondet_long(); ASSUME(in_f >= SEXP_MIN_FIXNUM && in_f <= SEXP_MAX_FIXNUM);
  in_c = nondet_long(); ASSUME(in_c >= SEXP_MIN_FIXNUM && in_c <= SEXP_MAX_FIXNUM);
  sexp r = sexp_arithmetic_shift(ctx, SEXP_FALSE, 2, sexp_make_fixnum(in_f), sexp_make_fixnum(in_c));
  OBL(sexp_fixnump(r), "shift_fixnum.result: the fixnum path returns a fixnum");
  __int128 want;
  if (in_c >= 0) { ASSUME(in_c < 64); want = (__int128)in_f * ((__int128)1 << in_c); }     /* larger counts cannot stay on the fixnum path unless f == 0 */
  else want = in_c > -64 ? (__int128)(in_f >> -in_c) : (in_f < 0 ? -1 : 0);
  OBL(in_c >= 64 ? in_f == 0 && sexp_unbox_fixnum(r) == 0 : (__int128)sexp_unbox_fixnum(r) == want, "shift_fixnum.value: f * 2^c, or floor(f / 2^-c)");
  REACH();
}
