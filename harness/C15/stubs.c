#include "vm/vm.h"
sexp sexp_type_exception (sexp ctx, sexp self, sexp_uint_t type_id, sexp x) { return vm_new_exception(); }
sexp sexp_xtype_exception (sexp ctx, sexp self, const char *msg, sexp x) { return vm_new_exception(); }
sexp sexp_cons_op (sexp ctx, sexp self, sexp_sint_t n, sexp head, sexp tail) { return vm_new_pair(head, tail); }
sexp sexp_list2 (sexp ctx, sexp a, sexp b) { return vm_new_pair(a, vm_new_pair(b, SEXP_NULL)); }
sexp sexp_eval_string (sexp ctx, const char *str, sexp_sint_t len, sexp env) { return SEXP_FALSE; }
sexp sexp_print_exception_op (sexp ctx, sexp self, sexp_sint_t n, sexp exn, sexp out) { return SEXP_VOID; }
sexp sexp_push_op(sexp ctx, sexp* loc, sexp x) { sexp tmp = vm_new_pair(x, *loc); *loc = tmp; return tmp; }     /* the body of sexp.c:sexp_push_op over the pair stub */
