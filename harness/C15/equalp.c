/* C15: sexp_equalp_bound (sexp.c) on small trees of pairs with flonum leaves.
 *   equal.structural   non-#f iff the two trees have the same shape and leaves (here: same leaves);
 *   equal.symmetric    equal?(a,b) and equal?(b,a) agree;  equal.reflexive  equal?(a,a) holds at no cost;
 *   equal.budget       the bound returned is the bound given minus the number of compound objects compared: the budget is
 *                      threaded through every recursive call, so the work of one call is limited by the initial bound
 *                      (this is what makes equal? terminate on cyclic data: sexp_equalp_op retries with a cycle-safe
 *                      algorithm when the budget is exhausted).
 * The type table is sexp.c's own _sexp_type_specs (text copied by groups/C16.py). */
#include "vm/vm.h"
extern sexp sexp_write_uvector(sexp ctx, sexp self, sexp_sint_t n, sexp obj, sexp writeb, sexp out);
extern sexp sexp_finalize_uvector (sexp ctx, sexp self, sexp_sint_t n, sexp obj);
extern sexp sexp_finalize_fileno (sexp ctx, sexp self, sexp_sint_t n, sexp fileno);
#include "type_specs.h"
extern sexp sexp_equalp_bound (sexp ctx, sexp self, sexp_sint_t n, sexp a, sexp b, sexp depth, sexp bound);
struct typ_t { struct vm_hdr h; struct sexp_type_struct t; };
static struct typ_t types[SEXP_NUM_CORE_TYPES];
static struct { struct vm_hdr h; unsigned long length; sexp data[SEXP_NUM_CORE_TYPES]; } types_vec;
#ifndef SHAPE
#define SHAPE 1       /* 0: (l0 . l1);  1: ((l0 . l1) . (l2 . l3));  2: (l0 . (l1 . (l2 . l3))) */
#endif
long in_la[4], in_lb[4]; long in_bound;
/* leaves are flonum objects F0..F3 (registered heap objects: pointer tests fold); equal leaves are the same object, the differing
   leaf of tree b is another flonum with a different value */
static sexp F[4];
static sexp leaf(long v) { return F[v & 3]; }
static sexp build(long l[4]) {
  if (SHAPE == 0) return vm_new_pair(leaf(l[0]), leaf(l[1]));
  if (SHAPE == 1) { sexp x = vm_new_pair(leaf(l[0]), leaf(l[1])); sexp y = vm_new_pair(leaf(l[2]), leaf(l[3])); return vm_new_pair(x, y); }
  sexp z = vm_new_pair(leaf(l[2]), leaf(l[3])); sexp y = vm_new_pair(leaf(l[1]), z); return vm_new_pair(leaf(l[0]), y);
}
void h_equalp(void) {
  for (int i = 0; i < SEXP_NUM_CORE_TYPES; i++) { types[i].h.tag = SEXP_TYPE; types[i].t = _sexp_type_specs[i]; types_vec.data[i] = (sexp)&types[i]; }
  types_vec.h.tag = SEXP_VECTOR; types_vec.length = SEXP_NUM_CORE_TYPES; verif_register(&types_vec);
  vm_ctx_obj.h.tag = SEXP_CONTEXT; verif_register(&vm_ctx_obj); sexp ctx = (sexp)&vm_ctx_obj;
  vm_globals_obj.h.tag = SEXP_VECTOR; vm_globals_obj.length = SEXP_G_NUM_GLOBALS; verif_register(&vm_globals_obj); vm_ctx_obj.globals = (sexp)&vm_globals_obj;
  vm_globals_obj.data[SEXP_G_TYPES] = (sexp)&types_vec; vm_globals_obj.data[SEXP_G_NUM_TYPES] = sexp_make_fixnum(SEXP_NUM_CORE_TYPES);
  int same = 1, nleaf = SHAPE == 0 ? 2 : 4;
  /* leaves are constants of the instance (DIFF = index of the one differing leaf, -1 for none): a symbolic immediate in a pointer
     variable makes every pointer test and tag read of the comparison symbolic */
#ifndef DIFF
#define DIFF (-1)
#endif
  for (int k = 0; k < 4; k++) F[k] = vm_new_flonum((double)k + 0.5);
  for (int k = 0; k < 4; k++) { in_la[k] = k; in_lb[k] = (k == DIFF) ? (k + 1) & 3 : k; if (k < nleaf && in_la[k] != in_lb[k]) same = 0; }
  sexp a = build(in_la), b = build(in_lb);
  in_bound = nondet_long(); __CPROVER_assume(in_bound >= 10 && in_bound <= 1000);
  sexp depth = sexp_make_fixnum(100), bound = sexp_make_fixnum(in_bound);
  sexp r = sexp_equalp_bound(ctx, NULL, 2, a, b, depth, bound);
  int compound = SHAPE == 0 ? 1 : 3;
  OBL((r != SEXP_FALSE) == same, "equal.structural: not #f iff the two trees have the same leaves");
  OBL(!same || r == sexp_make_fixnum(in_bound - compound), "equal.budget: on equal trees the returned bound is the given bound minus the number of compound objects compared (budget threaded through every recursive call)");
  sexp r2 = sexp_equalp_bound(ctx, NULL, 2, b, a, depth, bound);
  OBL((r2 != SEXP_FALSE) == (r != SEXP_FALSE), "equal.symmetric: equal?(a,b) and equal?(b,a) agree");
  sexp r3 = sexp_equalp_bound(ctx, NULL, 2, a, a, depth, bound);
  OBL(r3 == bound, "equal.reflexive: an object is equal? to itself, at no cost");
  REACH();
}
