/* C15: lib/srfi/69/hash.c - a hash table behaves as a finite map (built-in identity mode:
 * hash_fn = eq_fn = 1, i.e. hash-by-identity / eq?).  View: the association list obtained by
 * walking every bucket.  Tables of NB buckets holding E existing entries; keys are symbolic fixnums
 * (pairwise distinct), the bucket of each follows from its value. */
#include "vm/vm.h"
#include "lib/srfi/69/hash.c"

#ifndef NB
#define NB 16
#endif
#ifndef E
#define E 1
#endif
struct vecNB { struct vm_hdr h; unsigned long length; sexp data[NB]; };
struct vec2NB { struct vm_hdr h; unsigned long length; sexp data[2 * NB]; };
struct ht_t { struct vm_hdr h; sexp slots[4]; };
static struct vecNB buckets_obj; static struct vec2NB grown_obj; static struct ht_t ht_obj;
/* the record type of the table in the context's type table (hash-table-delete! checks the type name) */
#define HT_TAG 20
struct typ_t { struct vm_hdr h; sexp name; };
static struct typ_t ht_type; static struct { struct vm_hdr h; unsigned long length; sexp data[HT_TAG + 1]; } types_vec;
static struct { struct vm_hdr h; unsigned long length; char data[11]; } tn_bytes; static struct { struct vm_hdr h; sexp bytes; unsigned long offset, length; } tn_str;
long in_key[3], in_val[3], in_newkey, in_newval; int in_create;
sexp cell[3];
int grow_calls;

sexp sexp_make_vector_op (sexp ctx, sexp self, sexp_sint_t n, sexp len, sexp dflt) {
  grow_calls++;
  __CPROVER_assert(len == sexp_make_fixnum(2 * NB), "regrow.size: the bucket vector doubles");
  grown_obj.h.tag = SEXP_VECTOR; grown_obj.length = 2 * NB; for (int k = 0; k < 2 * NB; k++) grown_obj.data[k] = dflt; verif_register(&grown_obj); return (sexp)&grown_obj;
}
sexp sexp_apply (sexp ctx, sexp proc, sexp args) { __CPROVER_assert(0, "hash.builtin_mode: user hash/equality procedures are not called in identity mode"); return SEXP_ZERO; }
sexp sexp_equalp_op (sexp ctx, sexp self, sexp_sint_t n, sexp a, sexp b) { __CPROVER_assert(0, "hash.builtin_mode: equal? not called in identity mode"); return SEXP_FALSE; }

/* the map view: the cell whose key is k, found by walking the bucket k hashes to (NULL if none); counts duplicates */
static sexp view_lookup(sexp ht, sexp k, int *count) {
  sexp bk = ht_obj.slots[0]; unsigned long len = sexp_vector_length(bk);
  sexp found = NULL; *count = 0;
  sexp p = sexp_vector_data(bk)[(sexp_uint_t)k % len];
  for (int d = 0; d < 6 && sexp_pairp(p); d++, p = sexp_cdr(p))
    if (sexp_pairp(sexp_car(p)) && sexp_caar(p) == k) { if (!found) found = sexp_car(p); (*count)++; }
  return found;
}
/* total number of cells in the table (every bucket walked) */
static long view_size(void) {
  sexp bk = ht_obj.slots[0]; long n = 0;
  for (unsigned long b = 0; b < 2 * NB; b++) if (b < sexp_vector_length(bk)) { sexp p = sexp_vector_data(bk)[b]; for (int d = 0; d < 6 && sexp_pairp(p); d++, p = sexp_cdr(p)) n++; }
  return n;
}

static sexp setup(void) {
  vm_ctx_obj.h.tag = SEXP_CONTEXT; verif_register(&vm_ctx_obj);
  sexp ctx = (sexp)&vm_ctx_obj; sexp_context_saves(ctx) = NULL;
  buckets_obj.h.tag = SEXP_VECTOR; buckets_obj.length = NB; verif_register(&buckets_obj);
  for (int b = 0; b < NB; b++) buckets_obj.data[b] = SEXP_NULL;
  ht_obj.h.tag = HT_TAG; verif_register(&ht_obj);           /* a record type named "Hash-Table" */
  vm_globals_obj.h.tag = SEXP_VECTOR; vm_globals_obj.length = SEXP_G_NUM_GLOBALS; verif_register(&vm_globals_obj); sexp_context_globals(ctx) = (sexp)&vm_globals_obj;
  types_vec.h.tag = SEXP_VECTOR; types_vec.length = HT_TAG + 1; verif_register(&types_vec); vm_globals_obj.data[SEXP_G_TYPES] = (sexp)&types_vec;
  ht_type.h.tag = SEXP_TYPE; verif_register(&ht_type); types_vec.data[HT_TAG] = (sexp)&ht_type;
  tn_bytes.h.tag = SEXP_BYTES; tn_bytes.length = 10; memcpy(tn_bytes.data, "Hash-Table", 11); verif_register(&tn_bytes);
  tn_str.h.tag = SEXP_STRING; tn_str.bytes = (sexp)&tn_bytes; tn_str.offset = 0; tn_str.length = 10; verif_register(&tn_str); ht_type.name = (sexp)&tn_str;
  ht_obj.slots[0] = (sexp)&buckets_obj; ht_obj.slots[1] = sexp_make_fixnum(E); ht_obj.slots[2] = SEXP_ONE; ht_obj.slots[3] = SEXP_ONE;
  for (int j = 0; j < E; j++) {
    in_key[j] = nondet_long(); in_val[j] = nondet_long();
    __CPROVER_assume(in_key[j] >= SEXP_MIN_FIXNUM && in_key[j] <= SEXP_MAX_FIXNUM && in_val[j] >= 0 && in_val[j] < 1000);
    for (int q = 0; q < j; q++) __CPROVER_assume(in_key[q] != in_key[j]);
    sexp k = sexp_make_fixnum(in_key[j]);
    cell[j] = vm_new_pair(k, sexp_make_fixnum(in_val[j]));
    unsigned long b = (sexp_uint_t)k % NB;
    buckets_obj.data[b] = vm_new_pair(cell[j], buckets_obj.data[b]);
  }
  return ctx;
}

void h_cell(void) {
  sexp ctx = setup(); sexp ht = (sexp)&ht_obj;
  in_newkey = nondet_long(); __CPROVER_assume(in_newkey >= SEXP_MIN_FIXNUM && in_newkey <= SEXP_MAX_FIXNUM);
  in_create = nondet_bool(); in_newval = nondet_long(); __CPROVER_assume(in_newval >= 0 && in_newval < 1000);
  sexp key = sexp_make_fixnum(in_newkey);
  sexp createp = in_create ? sexp_make_fixnum(in_newval) : SEXP_FALSE;
  int present = -1; for (int j = 0; j < E; j++) if (in_key[j] == in_newkey) present = j;
  sexp r = sexp_hash_table_cell(ctx, SEXP_FALSE, 3, ht, key, createp);
  int cnt;
  if (present >= 0) {
    OBL(r == cell[present], "cell.found: lookup of a present key returns its cell");
    OBL(ht_obj.slots[1] == sexp_make_fixnum(E) && grow_calls == 0, "cell.found_frame: size and buckets unchanged");
  } else if (!in_create) {
    OBL(r == SEXP_FALSE, "cell.absent: lookup of an absent key without create returns #f");
    OBL(ht_obj.slots[1] == sexp_make_fixnum(E) && grow_calls == 0, "cell.absent_frame: size and buckets unchanged");
  } else {
    OBL(sexp_pairp(r) && sexp_car(r) == key && sexp_cdr(r) == createp, "cell.created: a fresh cell (key . default) is returned");
    OBL(ht_obj.slots[1] == sexp_make_fixnum(E + 1), "cell.size: size grows by one");
    OBL(view_lookup(ht, key, &cnt) == r && cnt == 1, "cell.inserted_once: the new key is in the map exactly once, at the bucket it hashes to");
    OBL(grow_calls == (sexp_hash_resize_check(E, NB) ? 1 : 0), "cell.regrow_when: the table grows exactly when the load check says so");
    OBL(view_size() == E + 1, "cell.total: the table holds exactly the old entries plus the new one (no cell is linked twice)");
  }
  for (int j = 0; j < E; j++) {
    sexp c = view_lookup(ht, sexp_make_fixnum(in_key[j]), &cnt);
    OBL(c == cell[j] && cnt == 1, "map.others_kept: every previously present key still maps to its own cell, exactly once");
    OBL(sexp_cdr(cell[j]) == sexp_make_fixnum(in_val[j]), "map.values_kept: stored values unchanged");
  }
  OBL(sexp_context_saves(ctx) == NULL, "gc.release: preserve chain restored");
  REACH();
}

void h_delete(void) {
  sexp ctx = setup(); sexp ht = (sexp)&ht_obj;
  in_newkey = nondet_long(); __CPROVER_assume(in_newkey >= SEXP_MIN_FIXNUM && in_newkey <= SEXP_MAX_FIXNUM);
  sexp key = sexp_make_fixnum(in_newkey);
  int present = -1; for (int j = 0; j < E; j++) if (in_key[j] == in_newkey) present = j;
  sexp r = sexp_hash_table_delete(ctx, SEXP_FALSE, 2, ht, key);
  int cnt;
  OBL(r == SEXP_VOID, "delete.result: returns unspecified");
  OBL(view_lookup(ht, key, &cnt) == NULL && cnt == 0, "delete.removed: the key is no longer in the map");
  OBL(ht_obj.slots[1] == sexp_make_fixnum(present >= 0 ? E - 1 : E), "delete.size: size drops by one iff the key was present");
  for (int j = 0; j < E; j++) if (j != present) {
    sexp c = view_lookup(ht, sexp_make_fixnum(in_key[j]), &cnt);
    OBL(c == cell[j] && cnt == 1, "map.others_kept: every other key still maps to its own cell");
  }
  REACH();
}
