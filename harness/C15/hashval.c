/* C15: values that are equal? have the same default hash.  hash_one (static, lib/srfi/69/hash.c) on
 * two bignums of the same value whose allocated lengths differ (a spare high zero word, as left by
 * subtraction); the Bignum entry of the type table is copied from sexp.c's own _sexp_type_specs. */
#include "bn.h"
/* sexp.c is included only for its static type table; its own (different) sexp_string_hash is renamed */
#define sexp_string_hash sexp_c_string_hash_of_sexp_c
#include "sexp.c"
#undef sexp_string_hash
#undef FNV_PRIME
#undef FNV_OFFSET_BASIS
#include "lib/srfi/69/hash.c"

unsigned long in_words[4]; int in_s;
struct typ_t { unsigned int tag; char markedp; unsigned char flags; unsigned short pad0; struct sexp_type_struct t; };
static struct typ_t big_type;
struct tv_t { unsigned int tag; char markedp; unsigned char flags; unsigned short pad0; unsigned long length; sexp data[SEXP_BIGNUM + 1]; };
static struct tv_t types_vec;
struct gv_t { unsigned int tag; char markedp; unsigned char flags; unsigned short pad0; unsigned long length; sexp data[SEXP_G_NUM_GLOBALS]; };
static struct gv_t globals_vec;
struct cx_t { unsigned int tag; char markedp; unsigned char flags; unsigned short pad0; sexp stack, env, parent, child, globals; };
static struct cx_t ctx_obj;

void h_hash_bignum_coherent(void) {
  sexp ctx = (sexp)&ctx_obj; ctx_obj.tag = SEXP_CONTEXT; verif_register(ctx);
  globals_vec.tag = SEXP_VECTOR; globals_vec.length = SEXP_G_NUM_GLOBALS; verif_register(&globals_vec); ctx_obj.globals = (sexp)&globals_vec;
  types_vec.tag = SEXP_VECTOR; types_vec.length = SEXP_BIGNUM + 1; verif_register(&types_vec); globals_vec.data[SEXP_G_TYPES] = (sexp)&types_vec;
  big_type.tag = SEXP_TYPE; big_type.t = _sexp_type_specs[SEXP_BIGNUM]; verif_register(&big_type); types_vec.data[SEXP_BIGNUM] = (sexp)&big_type;
  OBL(big_type.t.tag == SEXP_BIGNUM, "types.bignum_entry: entry SEXP_BIGNUM of the static type table describes bignums");
#ifndef LW
#define LW 1
#endif
#define CAT2(a,b) a##b
#define CAT(a,b) CAT2(a,b)
#define LW1 CAT(LWP_, LW)
#define LWP_1 2
#define LWP_2 3
#define LWP_3 4
  static struct CAT(bn_, LW) a_obj; static struct CAT(bn_, LW1) b_obj;
  in_s = nondet_bool() ? 1 : -1;
  a_obj.tag = SEXP_BIGNUM; a_obj.length = LW; a_obj.sign = in_s; verif_register(&a_obj);
  b_obj.tag = SEXP_BIGNUM; b_obj.length = LW + 1; b_obj.sign = in_s; verif_register(&b_obj);
  for (int k = 0; k < LW; k++) { in_words[k] = nondet_ulong(); a_obj.data[k] = in_words[k]; b_obj.data[k] = in_words[k]; }
  b_obj.data[LW] = 0;                       /* the spare high zero word */
  ASSUME(in_words[LW - 1] != 0);
  sexp a = (sexp)&a_obj, b = (sexp)&b_obj;
  OBL(sexp_bignum_compare(a, b) == 0, "coherence.premise: the two bignums are numerically equal (equal? / eqv? / =)");
  sexp_uint_t ha = hash_one(ctx, a, 0, HASH_DEPTH), hb = hash_one(ctx, b, 0, HASH_DEPTH);
  OBL(ha == hb, "hash.coherent: equal bignums have the same default hash whatever their allocated length");
  REACH();
}

/* strings that are string=? - the same bytes seen through different views of different byte stores (a literal or fresh copy at
 * offset 0; a view at offset 1 into a longer store, as utf8->string! and string ports produce) - are equal?, and have the same
 * default hash and the same string-hash. */
struct by5 { unsigned int tag; char markedp; unsigned char flags; unsigned short pad0; unsigned long length; char data[5]; };
struct by3 { unsigned int tag; char markedp; unsigned char flags; unsigned short pad0; unsigned long length; char data[3]; };
struct st_t { unsigned int tag; char markedp; unsigned char flags; unsigned short pad0; sexp bytes; unsigned long offset, length; };
static struct by5 store_a; static struct by3 store_b; static struct st_t str_a, str_b; static struct typ_t str_type, bytes_type;
unsigned char in_c0, in_c1; long in_bound;
void h_string_coherent(void) {
  sexp ctx = (sexp)&ctx_obj; ctx_obj.tag = SEXP_CONTEXT; verif_register(ctx);
  globals_vec.tag = SEXP_VECTOR; globals_vec.length = SEXP_G_NUM_GLOBALS; verif_register(&globals_vec); ctx_obj.globals = (sexp)&globals_vec;
  types_vec.tag = SEXP_VECTOR; types_vec.length = SEXP_BIGNUM + 1; verif_register(&types_vec); globals_vec.data[SEXP_G_TYPES] = (sexp)&types_vec;
  globals_vec.data[SEXP_G_NUM_TYPES] = sexp_make_fixnum(SEXP_BIGNUM + 1);
  str_type.tag = SEXP_TYPE; str_type.t = _sexp_type_specs[SEXP_STRING]; verif_register(&str_type); types_vec.data[SEXP_STRING] = (sexp)&str_type;
  bytes_type.tag = SEXP_TYPE; bytes_type.t = _sexp_type_specs[SEXP_BYTES]; verif_register(&bytes_type); types_vec.data[SEXP_BYTES] = (sexp)&bytes_type;
  in_c0 = nondet_uchar(); in_c1 = nondet_uchar(); __CPROVER_assume(in_c0 >= 1 && in_c0 < 0x80 && in_c1 >= 1 && in_c1 < 0x80);
  store_a.tag = SEXP_BYTES; store_a.length = 4; store_a.data[0] = 'x'; store_a.data[1] = in_c0; store_a.data[2] = in_c1; store_a.data[3] = 'y'; store_a.data[4] = 0; verif_register(&store_a);
  store_b.tag = SEXP_BYTES; store_b.length = 2; store_b.data[0] = in_c0; store_b.data[1] = in_c1; store_b.data[2] = 0; verif_register(&store_b);
  str_a.tag = SEXP_STRING; str_a.bytes = (sexp)&store_a; str_a.offset = 1; str_a.length = 2; verif_register(&str_a);
  str_b.tag = SEXP_STRING; str_b.bytes = (sexp)&store_b; str_b.offset = 0; str_b.length = 2; verif_register(&str_b);
  sexp a = (sexp)&str_a, b = (sexp)&str_b;
  OBL(sexp_string_size(a) == sexp_string_size(b) && sexp_string_data(a)[0] == sexp_string_data(b)[0] && sexp_string_data(a)[1] == sexp_string_data(b)[1], "coherence.premise: the two strings are string=?");
  sexp e = sexp_equalp_bound(ctx, NULL, 2, a, b, sexp_make_fixnum(100), sexp_make_fixnum(1000));
  OBL(e != SEXP_FALSE, "equal.strings_by_content: strings with the same characters are equal? whatever view of whatever byte store they are");
  sexp_uint_t ha = hash_one(ctx, a, 0, HASH_DEPTH), hb = hash_one(ctx, b, 0, HASH_DEPTH);
  OBL(ha == hb, "hash.coherent_strings: equal strings have the same default hash");
  in_bound = nondet_long(); __CPROVER_assume(in_bound >= 1 && in_bound <= SEXP_MAX_FIXNUM);
  sexp sa = sexp_string_hash(ctx, NULL, 2, a, sexp_make_fixnum(in_bound)), sb = sexp_string_hash(ctx, NULL, 2, b, sexp_make_fixnum(in_bound));
  OBL(sa == sb && sexp_fixnump(sa), "string_hash.coherent: string=? strings have the same string-hash (a string-keyed table finds them)");
  sexp ca = sexp_string_ci_hash(ctx, NULL, 2, a, sexp_make_fixnum(in_bound)), cb = sexp_string_ci_hash(ctx, NULL, 2, b, sexp_make_fixnum(in_bound));
  OBL(ca == cb && sexp_fixnump(ca), "string_ci_hash.coherent: ... and the same string-ci-hash");
  REACH();
}
