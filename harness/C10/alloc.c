/* C10 (growth policy): sexp_alloc of gc.c with its four callees replaced by contract stubs - sexp_try_alloc (verified in group
 * try_alloc) returns symbolic results, sexp_gc (groups sweep / C16) reports symbolic freed sizes, sexp_heap_total_size and
 * sexp_grow_heap record.  Loop-free, all sizes symbolic: proved. */
#include "common.h"
#include "gc.c"
struct cx_t { unsigned int tag; char markedp; unsigned char flags; unsigned short pad0;
  sexp stack, env, parent, child, globals, dk, params, proc, name, specific, event, result, dl; sexp_heap heap; };
struct glob_t { unsigned int tag; char markedp; unsigned char flags; unsigned short pad0; unsigned long length; sexp data[SEXP_G_NUM_GLOBALS]; };
static struct cx_t ctx_obj; static struct glob_t globals; static struct sexp_heap_t hs; static struct sexp_struct oom_obj; char block1[8], block2[8];
size_t in_size, in_max_freed, in_sum_freed, in_total, in_maxsize; int in_r1, in_r2;
int n_try, n_gc, n_grow, gc_at_try, grow_at_try; size_t try_size[2], grow_size;
void h_alloc(void) {
  in_size = nondet_ulong(); in_max_freed = nondet_ulong(); in_sum_freed = nondet_ulong(); in_total = nondet_ulong(); in_maxsize = nondet_ulong();
  __CPROVER_assume(in_size >= 1 && in_size <= (1ul << 30) && in_max_freed <= (1ul << 31) && in_sum_freed <= (1ul << 32) && in_total <= (1ul << 32) && in_maxsize <= (1ul << 32));
  in_r1 = nondet_bool(); in_r2 = nondet_bool();
  ctx_obj.tag = SEXP_CONTEXT; ctx_obj.heap = &hs; ctx_obj.globals = (sexp)&globals; globals.tag = SEXP_VECTOR; globals.length = SEXP_G_NUM_GLOBALS;
  oom_obj.tag = SEXP_EXCEPTION; globals.data[SEXP_G_OOM_ERROR] = &oom_obj;
  hs.size = in_total; hs.max_size = in_maxsize; hs.next = NULL;
  void *r = sexp_alloc((sexp)&ctx_obj, in_size);
  size_t want = sexp_heap_align(in_size);
  OBL(r != NULL, "alloc.never_null: a block or the out-of-memory error object, never NULL");
  OBL(n_try >= 1 && try_size[0] == want && (n_try < 2 || try_size[1] == want), "alloc.size_aligned: the allocator is asked for the request rounded up to the heap alignment");
  if (in_r1) OBL(r == (void*)block1 && n_try == 1 && n_gc == 0 && n_grow == 0, "alloc.fast_path: a fitting free chunk is used without collection or growth");
  else {
    OBL(n_gc == 1 && gc_at_try == 1 && n_try == 2, "alloc.collect_once: when nothing fits, exactly one collection runs and the allocation is retried once");
    OBL(n_grow <= 1 && (n_grow == 0 || (grow_at_try == 1 && grow_size == want)), "alloc.grow_once: at most one growth, before the retry, for the rounded request");
    int under_max = in_maxsize == 0 || in_total < in_maxsize;
    OBL(under_max || n_grow == 0, "alloc.max_size: a heap at its configured maximum is not grown");
    OBL(!(in_max_freed >= want && in_total > 0 && (double)(in_total - (in_sum_freed < in_total ? in_sum_freed : in_total)) <= (double)in_total * 0.75) || n_grow == 0,
        "alloc.reuse: when the collection freed a fitting chunk and no more than three quarters of the heap stays live, the freed storage is reused and the heap does not grow");
    OBL(!(in_max_freed < want && under_max) || n_grow == 1, "alloc.grow_when_needed: when no freed chunk fits and the maximum allows it, the heap grows");
    OBL(r == (in_r2 ? (void*)block2 : (void*)&oom_obj), "alloc.result: the retried block, else the out-of-memory error object");
  }
  REACH();
}
