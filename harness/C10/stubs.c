/* contract of sexp_allocated_bytes: the size the object's constructor requested (address -> size table) */
#include "common.h"
extern size_t size_table[];
struct cell { unsigned long w0; void *w1; unsigned long w2, w3; };
extern struct cell cells[9];
sexp_uint_t sexp_allocated_bytes (sexp ctx, sexp x) {
  long idx = ((char*)x - (char*)cells) / 32;
  __CPROVER_assert(idx >= 1 && idx < 9 && ((char*)x - (char*)cells) % 32 == 0, "allocated_bytes.arg: asked about the start of a heap object");
  return size_table[idx];
}
