/* C10/C02 (ownership list): sexp_preserve_object / sexp_release_object keep the preservatives list a multiset
 * of owners: preserve adds exactly one occurrence of x, release removes exactly one occurrence of x (if any)
 * and no occurrence of any other object; so an object preserved by two owners stays rooted until both release.
 * List of L existing entries drawn from 3 distinct objects (symbolic choice), x one of them. */
#include "vm/vm.h"
extern void sexp_preserve_object(sexp ctx, sexp x);
extern void sexp_release_object(sexp ctx, sexp x);
#ifndef L
#define L 3
#endif
static struct { struct vm_hdr h; sexp car, cdr, source; } objA, objB, objC;
int in_pick[4], in_x;
static sexp objs[3];
static long count_of(sexp ls, sexp x, long *len) {
  long n = 0; *len = 0;
  for (int d = 0; d < L + 2 && sexp_pairp(ls); d++, ls = sexp_cdr(ls)) { if (sexp_car(ls) == x) n++; (*len)++; }
  return n;
}
static sexp setup(void) {
  vm_ctx_obj.h.tag = SEXP_CONTEXT; verif_register(&vm_ctx_obj);
  sexp ctx = (sexp)&vm_ctx_obj; sexp_context_saves(ctx) = NULL;
  vm_globals_obj.h.tag = SEXP_VECTOR; vm_globals_obj.length = SEXP_G_NUM_GLOBALS; verif_register(&vm_globals_obj); sexp_context_globals(ctx) = (sexp)&vm_globals_obj;
  objA.h.tag = SEXP_PAIR; objB.h.tag = SEXP_PAIR; objC.h.tag = SEXP_PAIR; verif_register(&objA); verif_register(&objB); verif_register(&objC);
  objs[0] = (sexp)&objA; objs[1] = (sexp)&objB; objs[2] = (sexp)&objC;
  sexp ls = SEXP_NULL;
  for (int j = 0; j < L; j++) { in_pick[j] = nondet_int(); __CPROVER_assume(in_pick[j] >= 0 && in_pick[j] < 3); ls = vm_new_pair(objs[in_pick[j]], ls); }
  vm_globals_obj.data[SEXP_G_PRESERVATIVES] = ls;
  in_x = nondet_int(); __CPROVER_assume(in_x >= 0 && in_x < 3);
  return ctx;
}
void h_preserve(void) {
  sexp ctx = setup(); long len0, len1, before[3], after[3];
  for (int k = 0; k < 3; k++) before[k] = count_of(vm_globals_obj.data[SEXP_G_PRESERVATIVES], objs[k], &len0);
  sexp_preserve_object(ctx, objs[in_x]);
  for (int k = 0; k < 3; k++) after[k] = count_of(vm_globals_obj.data[SEXP_G_PRESERVATIVES], objs[k], &len1);
  OBL(len1 == len0 + 1, "preserve.length: one entry added");
  for (int k = 0; k < 3; k++) OBL(after[k] == before[k] + (k == in_x), "preserve.count: exactly one more occurrence of x (also when x is already preserved), every other object unchanged");
  REACH();
}
void h_release(void) {
  sexp ctx = setup(); long len0, len1, before[3], after[3];
  for (int k = 0; k < 3; k++) before[k] = count_of(vm_globals_obj.data[SEXP_G_PRESERVATIVES], objs[k], &len0);
  sexp_release_object(ctx, objs[in_x]);
  for (int k = 0; k < 3; k++) after[k] = count_of(vm_globals_obj.data[SEXP_G_PRESERVATIVES], objs[k], &len1);
  for (int k = 0; k < 3; k++) OBL(after[k] == before[k] - (k == in_x && before[k] > 0), "release.count: exactly one occurrence of x fewer (none if x was not preserved), every other object unchanged");
  OBL(len1 == len0 - (before[in_x] > 0), "release.length: at most one entry removed");
  REACH();
}
void h_preserve_release(void) {
  sexp ctx = setup(); long len0, len1, before[3], after[3];
  for (int k = 0; k < 3; k++) before[k] = count_of(vm_globals_obj.data[SEXP_G_PRESERVATIVES], objs[k], &len0);
  sexp_preserve_object(ctx, objs[in_x]); sexp_preserve_object(ctx, objs[in_x]); sexp_release_object(ctx, objs[in_x]);
  for (int k = 0; k < 3; k++) after[k] = count_of(vm_globals_obj.data[SEXP_G_PRESERVATIVES], objs[k], &len1);
  OBL(after[in_x] == before[in_x] + 1, "preserve_release.two_owners: preserved twice and released once, x is still on the list");
  REACH();
}
