/* C10: after a sweep the heap is an exact tiling by live objects and free chunks with a sorted,
 * non-overlapping, fully coalesced free list; first-fit allocation takes exactly the requested bytes
 * from the first chunk that fits.  One heap segment of NCELL 32-byte cells, every object on the access
 * path a statically typed C object (DESIGN 1.3); the layout (which cells start an object or a free
 * chunk, and their sizes) is a constant of the instance, mark bits and contents are symbolic.
 * Object sizes come from sexp_allocated_bytes under its own contract (address -> size table). */
#include "common.h"
#include "gc.c"

#define NCELL 9
struct cell { unsigned long w0; void *w1; unsigned long w2, w3; };       /* 32 bytes: header word, 3 payload words */
struct cell cells[NCELL];       /* shared with the stub TU: not static */
static struct sexp_heap_t hs;
struct cx_t { unsigned int tag; char markedp; unsigned char flags; unsigned short pad0;
  sexp stack, env, parent, child, globals, dk, params, proc, name, specific, event, result, dl; sexp_heap heap; };
static struct cx_t ctx_obj;
_Static_assert(offsetof(struct cx_t, heap) == offsetof(struct sexp_struct, value.context.heap), "context layout (heap)");

/* layouts: item kinds per cell run; 'O' object, 'F' free chunk; sizes in cells.  Cell 0 is the free-list sentinel. */
struct item { char kind; int ncells; };
#ifndef LAY
#define LAY 0
#endif
static const struct item layouts[][6] = {
  /* 0 */ {{'O',1},{'F',1},{'O',2},{'O',1},{'F',3},{0,0}},            /* free chunk on the left of an object, object run, big tail */
  /* 1 */ {{'O',1},{'F',1},{'O',1},{'F',1},{'O',1},{'F',3}},          /* free on both sides of the middle object */
  /* 2 */ {{'F',1},{'O',1},{'O',1},{'F',1},{'O',2},{'O',2}},          /* first chunk free; objects up to the end of the heap */
  /* 3 */ {{'O',2},{'O',1},{'O',1},{'O',1},{'O',1},{'F',2}},          /* object run before a free tail */
  /* 4 */ {{'O',1},{'O',1},{'F',2},{'O',1},{'O',1},{'O',2}},          /* free in the middle, object at the very end */
  /* 5 */ {{'O',8},{0,0},{0,0},{0,0},{0,0},{0,0}},                    /* one object filling the segment: empty free list */
};
#define ITEMS layouts[LAY]
int in_mark[6];
unsigned long in_payload[NCELL];
static int item_start[6], nitems;
size_t size_table[NCELL];                 /* contract of sexp_allocated_bytes: the size the constructor requested */

static void build(void) {
  hs.size = NCELL * 32; hs.max_size = 0; hs.chunk_size = 0; hs.next = NULL; hs.data = (char*)cells; hs.free_list = (sexp_free_list)&cells[0];
  ctx_obj.tag = SEXP_CONTEXT; ctx_obj.heap = &hs;
  cells[0].w0 = 0; cells[0].w1 = NULL;                       /* sentinel: size 0 */
  int c = 1; struct cell *prev_free = &cells[0];
  nitems = 0;
  for (int k = 0; k < 6 && ITEMS[k].kind; k++) {
    item_start[k] = c; nitems++;
    if (ITEMS[k].kind == 'F') {
      cells[c].w0 = ITEMS[k].ncells * 32; cells[c].w1 = NULL;  /* struct sexp_free_list_t { size; next } */
      prev_free->w1 = &cells[c]; prev_free = &cells[c];
    } else {
#ifdef MARKS
      in_mark[k] = (MARKS >> k) & 1;            /* mark bits enumerated per instance: the heap walk is then fully concrete for symbolic execution */
#else
      in_mark[k] = nondet_bool();
#endif
      struct sexp_struct *o = (struct sexp_struct*)&cells[c];
      cells[c].w0 = 0; o->tag = SEXP_PAIR; o->markedp = in_mark[k];
      for (int j = 0; j < ITEMS[k].ncells; j++) { if (j) { in_payload[c + j] = nondet_ulong(); cells[c + j].w0 = in_payload[c + j]; } }
      size_table[c] = ITEMS[k].ncells * 32 - 8;       /* not aligned: the sweep aligns it */
    }
    c += ITEMS[k].ncells;
  }
  __CPROVER_assert(c == NCELL, "harness.layout: the layout tiles the segment");
}

/* expected free list after the sweep: maximal runs of (old free chunks and unmarked objects) */
static int exp_start[6], exp_cells[6], nexp;
static void expect_after_sweep(void) {
  nexp = 0; int open = 0;
  for (int k = 0; k < nitems; k++) {
    int freeable = ITEMS[k].kind == 'F' || !in_mark[k];
    if (freeable) { if (!open) { exp_start[nexp] = item_start[k]; exp_cells[nexp] = 0; nexp++; open = 1; } exp_cells[nexp - 1] += ITEMS[k].ncells; }
    else open = 0;
  }
}

void h_sweep(void) {
  build(); expect_after_sweep();
  sexp ctx = (sexp)&ctx_obj;
  size_t sum = 12345;
  sexp r = sexp_sweep(ctx, &sum);
  /* 1. the free list is exactly the expected runs, in address order */
  struct cell *f = (struct cell*)cells[0].w1;
  for (int e = 0; e < 6; e++) if (e < nexp) {
    OBL(f == &cells[exp_start[e]], "sweep.free_list: chunk e of the free list starts where the e-th maximal run of free/unmarked cells starts (sorted, coalesced)");
    if (f == &cells[exp_start[e]]) { OBL(f->w0 == (unsigned long)exp_cells[e] * 32, "sweep.chunk_size: its size is the size of the run (exact tiling)"); f = (struct cell*)f->w1; }
  }
  OBL(f == NULL, "sweep.free_list_end: no further chunk");
  OBL(cells[0].w0 == 0, "sweep.sentinel: the sentinel keeps size 0");
  /* 2. accounting */
  size_t want_sum = 0, want_max = 0;
  for (int k = 0; k < nitems; k++) if (ITEMS[k].kind == 'O' && !in_mark[k]) want_sum += ITEMS[k].ncells * 32;
  OBL(sum == want_sum, "sweep.sum_freed: the bytes reported freed are those of the unmarked objects");
  for (int e = 0; e < nexp; e++) {                       /* a run counts if it contains a freed object */
    int has_freed = 0;
    for (int k = 0; k < nitems; k++) if (ITEMS[k].kind == 'O' && !in_mark[k] && item_start[k] >= exp_start[e] && item_start[k] < exp_start[e] + exp_cells[e]) has_freed = 1;
    if (has_freed && (size_t)exp_cells[e] * 32 > want_max) want_max = exp_cells[e] * 32;
  }
  OBL(sexp_unbox_fixnum(r) <= (long)want_max && (want_sum == 0) == (sexp_unbox_fixnum(r) == 0), "sweep.max_freed: no larger than the largest chunk that absorbed a freed object; zero iff nothing was freed");
  /* 3. survivors */
  for (int k = 0; k < nitems; k++) if (ITEMS[k].kind == 'O' && in_mark[k]) {
    struct sexp_struct *o = (struct sexp_struct*)&cells[item_start[k]];
    OBL(o->tag == SEXP_PAIR && o->markedp == 0, "sweep.survivor_header: a marked object survives with its mark cleared");
    for (int j = 1; j < ITEMS[k].ncells; j++) OBL(cells[item_start[k] + j].w0 == in_payload[item_start[k] + j], "sweep.survivor_contents: its contents are untouched");
  }
  REACH();
}

size_t in_req;
void h_try_alloc(void) {
  build();
  sexp ctx = (sexp)&ctx_obj;
#ifdef REQ
  in_req = REQ;       /* enumerated: CBMC's memset model havocs pointer-typed fields when the length is symbolic (false alarm on try_alloc.zeroed) */
#else
  in_req = nondet_ulong(); __CPROVER_assume(in_req >= 32 && in_req <= 128 && in_req % 32 == 0);    /* sexp_alloc aligns the request */
#endif
  /* first fit over the old free list */
  int first = -1;
  for (int k = 0; k < nitems; k++) if (first < 0 && ITEMS[k].kind == 'F' && (size_t)ITEMS[k].ncells * 32 >= in_req) first = k;
  void *r = sexp_try_alloc(ctx, in_req);
  if (first < 0) {
    OBL(r == NULL, "try_alloc.none: NULL iff no chunk fits");
  } else {
    int c0 = item_start[first]; size_t chunk = (size_t)ITEMS[first].ncells * 32;
    OBL(r == (void*)&cells[c0], "try_alloc.first_fit: the block is the start of the first chunk that fits");
    for (size_t q = 0; q < 4; q++) if (q * 32 < in_req) OBL(cells[c0 + q].w0 == 0 && cells[c0 + q].w1 == NULL && cells[c0 + q].w2 == 0 && cells[c0 + q].w3 == 0, "try_alloc.zeroed: the block is zeroed");
    /* the remaining free list: the old chunks in order, with the chosen one replaced by its tail (if any) */
    struct cell *f = (struct cell*)cells[0].w1;
    for (int k = 0; k < nitems; k++) if (ITEMS[k].kind == 'F') {
      if (k != first) { OBL(f == &cells[item_start[k]] && f->w0 == (unsigned long)ITEMS[k].ncells * 32, "try_alloc.others: every other chunk stays on the list unchanged, in address order"); if (f) f = (struct cell*)f->w1; }
      else if (chunk >= in_req + SEXP_MINIMUM_OBJECT_SIZE) {
        OBL(f == &cells[c0 + in_req / 32] && f->w0 == chunk - in_req, "try_alloc.split: exactly the requested bytes leave the list; the tail stays free");
        if (f) f = (struct cell*)f->w1;
      }
    }
    OBL(f == NULL, "try_alloc.list_end: nothing else is on the list");
  }
  REACH();
}
