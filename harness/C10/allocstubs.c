#include "common.h"
extern size_t in_max_freed, in_sum_freed, in_total; extern int in_r1, in_r2;
extern int n_try, n_gc, n_grow, gc_at_try, grow_at_try; extern size_t try_size[2], grow_size;
static char block1_[8], block2_[8];
extern char block1[8], block2[8];
void* sexp_try_alloc (sexp ctx, size_t size) { if (n_try < 2) try_size[n_try] = size; n_try++; return n_try == 1 ? (in_r1 ? (void*)block1 : NULL) : (in_r2 ? (void*)block2 : NULL); }
sexp sexp_gc (sexp ctx, size_t *sum_freed) { n_gc++; gc_at_try = n_try; if (sum_freed) *sum_freed = in_sum_freed; return sexp_make_fixnum(in_max_freed); }
size_t sexp_heap_total_size (sexp_heap h) { return in_total; }
int sexp_grow_heap (sexp ctx, size_t size, size_t chunk_size) { n_grow++; grow_at_try = n_try; grow_size = size; return 1; }
