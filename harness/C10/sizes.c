/* C10 (object size from type formulas): for every constructor site in sexp.c / eval.c / bignum.c / vm.c, the
 * number of bytes the sweep steps over an object of that tag (sexp_heap_align(sexp_allocated_bytes(ctx, x)),
 * computed from the type table _sexp_type_specs that sexp.c installs) equals the number of bytes the allocator
 * took for it (sexp_heap_align(requested size)).  The fixed-size sites are listed mechanically on every run
 * (groups/C10.py: regex over the sources, must-fire >= 30 sites) into sites.h; the variable-size sites are
 * written here with the source text they correspond to, which the generator greps for (must-fire).
 * The length word of a variable-size object is symbolic (full domain below 2^40): loop-free, labelled proof. */
#include "common.h"
#include "sexp.c"
extern sexp_uint_t sexp_allocated_bytes (sexp ctx, sexp x);     /* not declared in sexp.h (gc.c defines it) */

struct typ_t { unsigned int tag; char markedp; unsigned char flags; unsigned short pad0; struct sexp_type_struct t; };
struct vec_t { unsigned int tag; char markedp; unsigned char flags; unsigned short pad0; unsigned long length; sexp data[SEXP_NUM_CORE_TYPES]; };
struct glob_t { unsigned int tag; char markedp; unsigned char flags; unsigned short pad0; unsigned long length; sexp data[SEXP_G_NUM_GLOBALS]; };
struct cx_t { unsigned int tag; char markedp; unsigned char flags; unsigned short pad0;
  sexp stack, env, parent, child, globals; };
static struct typ_t types[SEXP_NUM_CORE_TYPES];
static struct vec_t types_vec;
static struct glob_t globals;
static struct cx_t ctx_obj;
_Static_assert(offsetof(struct cx_t, globals) == offsetof(struct sexp_struct, value.context.globals), "context layout (globals)");
_Static_assert(offsetof(struct typ_t, t) == offsetof(struct sexp_struct, value), "type layout");
_Static_assert(sizeof(_sexp_type_specs) / sizeof(_sexp_type_specs[0]) == SEXP_NUM_CORE_TYPES, "one spec per core type");

/* an object: header + 12 words; the words are symbolic, the length word of the instance is read through the type's size_off */
struct obj_t { unsigned int tag; char markedp; unsigned char flags; unsigned short pad0; unsigned long w[12]; };
static struct obj_t obj;
unsigned long in_len;

static sexp build(void) {
  for (int i = 0; i < SEXP_NUM_CORE_TYPES; i++) { types[i].tag = SEXP_TYPE; types[i].t = _sexp_type_specs[i]; types_vec.data[i] = (sexp)&types[i]; }   /* as sexp_init_context_globals: memcpy of the spec into the type object */
  types_vec.tag = SEXP_VECTOR; types_vec.length = SEXP_NUM_CORE_TYPES;
  globals.tag = SEXP_VECTOR; globals.length = SEXP_G_NUM_GLOBALS; globals.data[SEXP_G_TYPES] = (sexp)&types_vec;
  globals.data[SEXP_G_NUM_TYPES] = sexp_make_fixnum(SEXP_NUM_CORE_TYPES);
  ctx_obj.tag = SEXP_CONTEXT; ctx_obj.globals = (sexp)&globals;
  for (int i = 0; i < 12; i++) obj.w[i] = nondet_ulong();
  return (sexp)&ctx_obj;
}
#define SWEPT(ctx, x) sexp_heap_align(sexp_allocated_bytes(ctx, (sexp)(x)))
#define TAKEN(n) sexp_heap_align((sexp_uint_t)(n))
#define FIXED(FIELD, TAG, SITE) do { obj.tag = TAG; OBL(SWEPT(ctx, &obj) == TAKEN(sexp_sizeof(FIELD)), "size.fixed: " SITE ": sexp_alloc_type(" #FIELD ", " #TAG "): the sweep steps over exactly the bytes the allocator took"); } while (0)

void h_sizes_fixed(void) {
  sexp ctx = build();
#include "sites.h"
  REACH();
}

void h_sizes_var(void) {
  sexp ctx = build(); sexp x = (sexp)&obj;
  in_len = nondet_ulong(); __CPROVER_assume(in_len < (1ul << 40));
  /* sexp.c sexp_make_vector_op: sexp_alloc_tagged(ctx, sexp_sizeof(vector) + clen*sizeof(sexp), SEXP_VECTOR); sexp_vector_length(vec) = clen */
  obj.tag = SEXP_VECTOR; sexp_vector_length(x) = in_len;
  OBL(SWEPT(ctx, x) == TAKEN(sexp_sizeof(vector) + in_len * sizeof(sexp)), "size.vector: sweep step == bytes taken by sexp_make_vector_op");
  /* sexp.c sexp_make_bytes_op: sexp_alloc_atomic(ctx, sexp_sizeof(bytes)+clen+1); sexp_bytes_length(s) = clen */
  obj.tag = SEXP_BYTES; sexp_bytes_length(x) = in_len;
  OBL(SWEPT(ctx, x) == TAKEN(sexp_sizeof(bytes) + in_len + 1), "size.bytes: sweep step == bytes taken by sexp_make_bytes_op");
  /* sexp.c sexp_intern: a byte vector (sexp_c_string's bytes) retagged SEXP_SYMBOL */
  obj.tag = SEXP_SYMBOL; sexp_bytes_length(x) = in_len;
  OBL(SWEPT(ctx, x) == TAKEN(sexp_sizeof(bytes) + in_len + 1), "size.symbol: a retagged byte vector keeps its size");
  /* bignum.c sexp_make_bignum / sexp_copy_bignum: sexp_sizeof(bignum) + len*sizeof(sexp_uint_t); sexp_bignum_length(res) = len */
  obj.tag = SEXP_BIGNUM; sexp_bignum_length(x) = in_len;
  OBL(SWEPT(ctx, x) == TAKEN(sexp_sizeof(bignum) + in_len * sizeof(sexp_uint_t)), "size.bignum: sweep step == bytes taken by sexp_make_bignum");
  /* sexp.h sexp_alloc_bytecode(ctx, i): sexp_sizeof(bytecode) + i; eval.c sets sexp_bytecode_length = i */
  obj.tag = SEXP_BYTECODE; sexp_bytecode_length(x) = in_len;
  OBL(SWEPT(ctx, x) == TAKEN(sexp_sizeof(bytecode) + in_len), "size.bytecode: sweep step == bytes taken by sexp_alloc_bytecode");
  /* vm.c sexp_grow_stack: sexp_sizeof(stack)+sizeof(sexp)*new_size; sexp_stack_length(stack) = new_size */
  obj.tag = SEXP_STACK; sexp_stack_length(x) = in_len;
  OBL(SWEPT(ctx, x) == TAKEN(sexp_sizeof(stack) + sizeof(sexp) * in_len), "size.stack: sweep step == bytes taken by sexp_grow_stack");
  /* eval.c sexp_make_eval_context: sexp_alloc_tagged(res, SEXP_STACK_SIZE, SEXP_STACK); sexp_stack_length(stack) = SEXP_INIT_STACK_SIZE */
  obj.tag = SEXP_STACK; sexp_stack_length(x) = SEXP_INIT_STACK_SIZE;
  OBL(SWEPT(ctx, x) == TAKEN(sexp_sizeof(stack)+sizeof(sexp)*SEXP_INIT_STACK_SIZE), "size.stack0: the initial stack (eval.c: #define SEXP_STACK_SIZE (sexp_sizeof(stack)+sizeof(sexp)*SEXP_INIT_STACK_SIZE))");
  /* sexp.c sexp_make_cpointer: sexp_alloc_type(cpointer), length 0 */
  obj.tag = SEXP_CPOINTER; sexp_cpointer_length(x) = 0;
  OBL(SWEPT(ctx, x) == TAKEN(sexp_sizeof(cpointer)), "size.cpointer: sweep step == bytes taken by sexp_make_cpointer");
  /* not a heap object / unknown tag: one alignment unit */
  obj.tag = SEXP_NUM_CORE_TYPES + 3;
  OBL(sexp_allocated_bytes(ctx, x) == sexp_heap_align(1), "size.unknown_tag: an unknown tag is stepped over as one unit");
  REACH();
}
