/* Shared harness helpers.  Everything here is harness-side (specification
 * and object construction); none of it is verified code. */
#ifndef VERIF_COMMON_H
#define VERIF_COMMON_H
#include <stdlib.h>
#include <string.h>
#include "chibi/eval.h"

#define REACH()        __CPROVER_assert(0, "REACH: end of harness")
#define OBL(c, name)   __CPROVER_assert((c), name)
#define ASSUME(c)      __CPROVER_assume(c)

int nondet_int(void);
unsigned nondet_uint(void);
long nondet_long(void);
unsigned long nondet_ulong(void);
unsigned char nondet_uchar(void);
_Bool nondet_bool(void);
void *nondet_ptr(void);

/* exact-size heap objects: an access one byte past the logical end is an
 * out-of-bounds obligation */
static inline sexp vf_obj(size_t size, int tag) {
  sexp x = (sexp) malloc(size);
  __CPROVER_assume(x != NULL);
  memset(x, 0, 8);
  x->tag = tag;
  return x;
}
static inline sexp vf_bytes(size_t n) {          /* data symbolic, NUL after it as sexp_make_bytes_op */
  sexp b = vf_obj(sexp_sizeof(bytes) + n + 1, SEXP_BYTES);
  sexp_bytes_length(b) = n;
  sexp_bytes_data(b)[n] = 0;
  return b;
}
static inline sexp vf_string(sexp bytes, size_t off, size_t size) {
  sexp s = vf_obj(sexp_sizeof(string), SEXP_STRING);
  sexp_string_bytes(s) = bytes;
  sexp_string_offset(s) = off;
  sexp_string_size(s) = size;
  return s;
}
static inline sexp vf_pair(sexp a, sexp d) {
  sexp p = vf_obj(sexp_sizeof(pair), SEXP_PAIR);
  sexp_car(p) = a; sexp_cdr(p) = d; sexp_pair_source(p) = SEXP_FALSE;
  return p;
}
static inline sexp vf_vector(size_t n) {
  sexp v = vf_obj(sexp_sizeof(vector) + n * sizeof(sexp), SEXP_VECTOR);
  sexp_vector_length(v) = n;
  return v;
}
/* a bignum with exactly n words, contents left symbolic by the caller */
static inline sexp vf_bignum(size_t n, int sign) {
  sexp b = vf_obj(sexp_sizeof(bignum) + n * sizeof(sexp_uint_t), SEXP_BIGNUM);
  sexp_bignum_length(b) = n;
  sexp_bignum_sign(b) = sign;
  return b;
}
/* minimum-size object with the given tag: the strongest representative of
 * "pointer of the wrong type" (anything read past 16 bytes is out of bounds) */
static inline sexp vf_min_obj(int tag) { return vf_obj(16, tag); }

/* a valid exception object as produced by the (stubbed) exception constructors */
static inline sexp vf_exception(void) {
  sexp e = vf_obj(sexp_sizeof(exception), SEXP_EXCEPTION);
  sexp_exception_kind(e) = SEXP_FALSE; sexp_exception_message(e) = SEXP_FALSE;
  sexp_exception_irritants(e) = SEXP_NULL; sexp_exception_procedure(e) = SEXP_FALSE;
  sexp_exception_source(e) = SEXP_FALSE; sexp_exception_stack_trace(e) = SEXP_FALSE;
  return e;
}
/* a context of the real size with a globals vector (contents symbolic unless set) */
static inline sexp vf_context(void) {
  sexp ctx = vf_obj(sexp_sizeof(context), SEXP_CONTEXT);
  sexp g = vf_vector(SEXP_G_NUM_GLOBALS);
  sexp_context_globals(ctx) = g;
  sexp_context_saves(ctx) = NULL;
  return ctx;
}
#endif
