/* Bignum harness support: statically typed bignum objects of exact size
 * (lengths fold during symbolic execution, DESIGN 1.3), a typed allocation
 * pool standing in for sexp_alloc ("alloc_plain": fresh, zeroed, exactly the
 * requested size), and the mathematical value of an exact integer as a wide
 * bit-vector. */
#ifndef VERIF_BN_H
#define VERIF_BN_H
#include "common.h"

#define BN_HDR  unsigned int tag; char markedp; unsigned char flags; unsigned short pad0; \
                signed char sign; char pad1[7]; unsigned long length
#define BN_TYPE(n) struct bn_##n { BN_HDR; unsigned long data[n]; }
struct bn_0 { BN_HDR; };
BN_TYPE(1); BN_TYPE(2); BN_TYPE(3); BN_TYPE(4); BN_TYPE(5); BN_TYPE(6); BN_TYPE(7); BN_TYPE(8);

#define BN_POOL 6
/* every pool slot is its own top-level object: an access past the end of one allocation is an
 * out-of-bounds obligation (elements of one array would be a single object for CBMC) */
#define BN_SLOTS(n) struct bn_##n bn_p##n##_0, bn_p##n##_1, bn_p##n##_2, bn_p##n##_3, bn_p##n##_4, bn_p##n##_5
BN_SLOTS(0); BN_SLOTS(1); BN_SLOTS(2); BN_SLOTS(3); BN_SLOTS(4); BN_SLOTS(5); BN_SLOTS(6); BN_SLOTS(7); BN_SLOTS(8);
#define BN_PICK(n, k) ((k) == 0 ? (void*)&bn_p##n##_0 : (k) == 1 ? (void*)&bn_p##n##_1 : (k) == 2 ? (void*)&bn_p##n##_2 : \
                       (k) == 3 ? (void*)&bn_p##n##_3 : (k) == 4 ? (void*)&bn_p##n##_4 : (void*)&bn_p##n##_5)
int bn_used[9];                   /* pools and counters are shared by the harness TU and the stub TU */
int bn_allocs;          /* ghost: number of allocations */
unsigned long bn_expect_words[8]; int bn_expect_n;   /* optional: expected word count per allocation ordinal */
sexp verif_reg[24]; int verif_nreg;    /* registered heap objects (prelude, VERIF_KINDFOLD) */
static inline void verif_register(void *p) { if (verif_nreg < 24) verif_reg[verif_nreg++] = (sexp)p; }
int bn_pool_exhausted;  /* ghost: set when a pool ran out (bound too small -> obligation) */

/* alloc_plain: a fresh zeroed object of exactly `size` bytes (static storage is zero) */
static void *bn_alloc(size_t size) {
  __CPROVER_assert(size >= 24 && (size - 24) % 8 == 0 && (size - 24) / 8 <= 8, "alloc.size: bignum allocation size is 24 + 8*len, len <= 8 (harness bound)");
  size_t n = (size - 24) / 8;
  /* shape fact (assert-then-assume): the harness may list the word count of each allocation in
     order when the code computes it from a symbolic quantity whose quotient is an instance constant */
  if (bn_allocs < bn_expect_n) {
    __CPROVER_assert(n == bn_expect_words[bn_allocs], "alloc.shape: allocation has the word count of the instance");
    n = bn_expect_words[bn_allocs];
  }
  bn_allocs++;
  if (n > 8 || bn_used[n] >= BN_POOL) { bn_pool_exhausted = 1; __CPROVER_assume(0); }
  int k = bn_used[n]++;
  void *r;
  switch (n) {
  case 0: r = BN_PICK(0, k); break; case 1: r = BN_PICK(1, k); break; case 2: r = BN_PICK(2, k); break;
  case 3: r = BN_PICK(3, k); break; case 4: r = BN_PICK(4, k); break; case 5: r = BN_PICK(5, k); break;
  case 6: r = BN_PICK(6, k); break; case 7: r = BN_PICK(7, k); break; default: r = BN_PICK(8, k); break;
  }
  verif_register(r);
  return r;
}

/* ---- alloc_gc: the adversarial collector (C02) --------------------------------------------
 * With -DVERIF_GC every allocation first runs a collection that reclaims EVERY pool object not
 * reachable from a registered root: the variables on the context's preserve chain
 * (ctx->saves), and the objects the harness declared caller-rooted.  Bignums hold no references,
 * so reachability is "some root holds its address".  A reclaimed object is havocked (every word,
 * header included, becomes arbitrary - the storage is reused) and flagged; using it afterwards
 * breaks the function's safety or functional obligations, and returning it breaks
 * `gc.result_live`.  Over-approximating roots would only weaken the collector. */
#ifdef VERIF_GC
struct bn_ctx_t { unsigned int tag; char markedp; unsigned char flags; unsigned short pad0;
  sexp stack, env, parent, child, globals, dk, params, proc, name, specific, event, result, dl;
  sexp_heap heap; struct sexp_mark_stack_ptr_t mark_stack[SEXP_MARK_STACK_COUNT]; struct sexp_mark_stack_ptr_t *mark_stack_ptr;
  struct sexp_gc_var_t *saves; };
_Static_assert(offsetof(struct bn_ctx_t, saves) == offsetof(struct sexp_struct, value.context.saves), "context layout (saves)");
sexp bn_rooted[6]; int bn_nrooted;                       /* caller-rooted objects (arguments) */
static inline void bn_root(sexp x) { if (bn_nrooted < 6) bn_rooted[bn_nrooted++] = x; }
int bn_dead[9][BN_POOL];                                 /* ghost: slot was reclaimed */
int bn_collections;
static int bn_is_rooted(sexp ctx, void *slot) {
  for (int r = 0; r < 6; r++) if (r < bn_nrooted && bn_rooted[r] == (sexp)slot) return 1;
  struct sexp_gc_var_t *s = ((struct bn_ctx_t*)ctx)->saves;
  for (int d = 0; d < 12 && s != NULL; d++, s = s->next)
    if (s->var != NULL && *(s->var) == (sexp)slot) return 1;
  return 0;
}
#define BN_HAVOC(n, k) do { struct bn_##n h_; *(struct bn_##n *)BN_PICK(n, k) = h_; } while (0)
#define BN_SWEEP(n) for (int k = 0; k < BN_POOL; k++) if (k < bn_used[n] && !bn_dead[n][k] && !bn_is_rooted(ctx, BN_PICK(n, k))) { bn_dead[n][k] = 1; \
    switch (k) { case 0: BN_HAVOC(n, 0); break; case 1: BN_HAVOC(n, 1); break; case 2: BN_HAVOC(n, 2); break; case 3: BN_HAVOC(n, 3); break; case 4: BN_HAVOC(n, 4); break; default: BN_HAVOC(n, 5); break; } }
static void bn_collect(sexp ctx) {
  bn_collections++;
  BN_SWEEP(1) BN_SWEEP(2) BN_SWEEP(3) BN_SWEEP(4) BN_SWEEP(5) BN_SWEEP(6) BN_SWEEP(7) BN_SWEEP(8)
}
static int bn_is_dead(sexp x) {
  for (int k = 0; k < BN_POOL; k++) {
    if (x == (sexp)BN_PICK(1, k)) return bn_dead[1][k]; if (x == (sexp)BN_PICK(2, k)) return bn_dead[2][k];
    if (x == (sexp)BN_PICK(3, k)) return bn_dead[3][k]; if (x == (sexp)BN_PICK(4, k)) return bn_dead[4][k];
    if (x == (sexp)BN_PICK(5, k)) return bn_dead[5][k]; if (x == (sexp)BN_PICK(6, k)) return bn_dead[6][k];
    if (x == (sexp)BN_PICK(7, k)) return bn_dead[7][k]; if (x == (sexp)BN_PICK(8, k)) return bn_dead[8][k];
  }
  return 0;
}
#endif

/* operands: BN_DECL(a, 2) declares a static 2-word bignum `a_obj` and sexp a */
#define BN_DECL(name, n) static struct bn_##n name##_obj; sexp name = (sexp)&name##_obj
#define BN_INIT(name, n, sgn) do { name##_obj.tag = SEXP_BIGNUM; name##_obj.length = (n); name##_obj.sign = (sgn); } while (0)

/* shape facts (assert-then-assume, DESIGN 1.3): the significant length of each operand is a
 * constant of the instance; the contract stub of sexp_bignum_hi asserts it and returns the constant */
sexp bn_known_p[8]; unsigned long bn_known_h[8]; int bn_nknown;
int bn_nt_expect[8], bn_nt_n, bn_nt_calls;   /* expected operand kinds per call of sexp_number_type */
static inline void bn_known(sexp p, unsigned long h) { bn_known_p[bn_nknown] = p; bn_known_h[bn_nknown] = h; bn_nknown++; verif_register(p); }

#ifndef BN_WIDE_BITS
#define BN_WIDE_BITS 704                          /* 11 words: room for products of 4-word operands and shifts */
#endif
typedef unsigned __CPROVER_bitvector[BN_WIDE_BITS] uwide;
typedef signed __CPROVER_bitvector[BN_WIDE_BITS] swide;

static inline uwide bn_mag(sexp x) {       /* sum data[k] * 2^(64k) over ALL length words */
  uwide r = 0;
  unsigned long n = sexp_bignum_length(x);
  for (unsigned long k = 0; k < n && k < BN_WIDE_BITS / 64 - 1; k++)
    r |= (uwide)sexp_bignum_data(x)[k] << (64 * k);
  return r;
}
static inline swide bn_val(sexp x) {       /* V(x) for a fixnum or a bignum */
  if (sexp_fixnump(x)) return (swide)sexp_unbox_fixnum(x);
  uwide m = bn_mag(x);
  return sexp_bignum_sign(x) < 0 ? -(swide)m : (swide)m;
}
static inline int bn_wf(sexp x) {          /* representation invariant of a bignum object */
  return sexp_pointerp(x) && sexp_pointer_tag(x) == SEXP_BIGNUM
      && (sexp_bignum_sign(x) == 1 || sexp_bignum_sign(x) == -1) && sexp_bignum_length(x) >= 1;
}
/* canonical: an integer that fits a fixnum is a fixnum */
static inline int bn_canonical(sexp x) {
  if (sexp_fixnump(x)) return 1;
  if (!bn_wf(x)) return 0;
  uwide m = bn_mag(x);   /* magnitude form: no wide negation */
  return sexp_bignum_sign(x) < 0 ? m > (uwide)SEXP_MAX_FIXNUM + 1 : m > (uwide)SEXP_MAX_FIXNUM;
}
#endif
