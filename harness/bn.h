/* Bignum harness support: statically typed bignum objects of exact size
 * (lengths fold during symbolic execution, DESIGN 1.3), a typed allocation
 * pool standing in for sexp_alloc ("alloc_plain": fresh, zeroed, exactly the
 * requested size), and the mathematical value of an exact integer as a wide
 * bit-vector. */
#ifndef VERIF_BN_H
#define VERIF_BN_H
#include "common.h"

#define BN_HDR  unsigned int tag; char markedp; unsigned char flags; unsigned short pad0; \
                signed char sign; char pad1[7]; unsigned long length
#define BN_TYPE(n) struct bn_##n { BN_HDR; unsigned long data[n]; }
struct bn_0 { BN_HDR; };
BN_TYPE(1); BN_TYPE(2); BN_TYPE(3); BN_TYPE(4); BN_TYPE(5); BN_TYPE(6); BN_TYPE(7); BN_TYPE(8);

#define BN_POOL 6
static struct bn_0 bn_pool0[BN_POOL]; static struct bn_1 bn_pool1[BN_POOL]; static struct bn_2 bn_pool2[BN_POOL];
static struct bn_3 bn_pool3[BN_POOL]; static struct bn_4 bn_pool4[BN_POOL]; static struct bn_5 bn_pool5[BN_POOL];
static struct bn_6 bn_pool6[BN_POOL]; static struct bn_7 bn_pool7[BN_POOL]; static struct bn_8 bn_pool8[BN_POOL];
static int bn_used[9];
int bn_allocs;          /* ghost: number of allocations */
int bn_pool_exhausted;  /* ghost: set when a pool ran out (bound too small -> obligation) */

/* alloc_plain: a fresh zeroed object of exactly `size` bytes (static storage is zero) */
static void *bn_alloc(size_t size) {
  __CPROVER_assert(size >= 24 && (size - 24) % 8 == 0 && (size - 24) / 8 <= 8, "alloc.size: bignum allocation size is 24 + 8*len, len <= 8 (harness bound)");
  size_t n = (size - 24) / 8;
  bn_allocs++;
  if (n > 8 || bn_used[n] >= BN_POOL) { bn_pool_exhausted = 1; __CPROVER_assume(0); }
  int k = bn_used[n]++;
  switch (n) {
  case 0: return &bn_pool0[k]; case 1: return &bn_pool1[k]; case 2: return &bn_pool2[k];
  case 3: return &bn_pool3[k]; case 4: return &bn_pool4[k]; case 5: return &bn_pool5[k];
  case 6: return &bn_pool6[k]; case 7: return &bn_pool7[k]; default: return &bn_pool8[k];
  }
}

/* operands: BN_DECL(a, 2) declares a static 2-word bignum `a_obj` and sexp a */
#define BN_DECL(name, n) static struct bn_##n name##_obj; sexp name = (sexp)&name##_obj
#define BN_INIT(name, n, sgn) do { name##_obj.tag = SEXP_BIGNUM; name##_obj.length = (n); name##_obj.sign = (sgn); } while (0)

/* shape facts (assert-then-assume, DESIGN 1.3): the significant length of each operand is a
 * constant of the instance; the contract stub of sexp_bignum_hi asserts it and returns the constant */
sexp bn_known_p[8]; unsigned long bn_known_h[8]; int bn_nknown;
int bn_nt_expect[8], bn_nt_n, bn_nt_calls;   /* expected operand kinds per call of sexp_number_type */
static inline void bn_known(sexp p, unsigned long h) { bn_known_p[bn_nknown] = p; bn_known_h[bn_nknown] = h; bn_nknown++; }

typedef unsigned __CPROVER_bitvector[704] uwide;   /* 11 words: room for products of 4-word operands and shifts */
typedef signed __CPROVER_bitvector[704] swide;

static inline uwide bn_mag(sexp x) {       /* sum data[k] * 2^(64k) over ALL length words */
  uwide r = 0;
  unsigned long n = sexp_bignum_length(x);
  for (unsigned long k = 0; k < n && k < 10; k++)
    r |= (uwide)sexp_bignum_data(x)[k] << (64 * k);
  return r;
}
static inline swide bn_val(sexp x) {       /* V(x) for a fixnum or a bignum */
  if (sexp_fixnump(x)) return (swide)sexp_unbox_fixnum(x);
  uwide m = bn_mag(x);
  return sexp_bignum_sign(x) < 0 ? -(swide)m : (swide)m;
}
static inline int bn_wf(sexp x) {          /* representation invariant of a bignum object */
  return sexp_pointerp(x) && sexp_pointer_tag(x) == SEXP_BIGNUM
      && (sexp_bignum_sign(x) == 1 || sexp_bignum_sign(x) == -1) && sexp_bignum_length(x) >= 1;
}
/* canonical: an integer that fits a fixnum is a fixnum */
static inline int bn_canonical(sexp x) {
  if (sexp_fixnump(x)) return 1;
  if (!bn_wf(x)) return 0;
  swide v = bn_val(x);
  return v > (swide)SEXP_MAX_FIXNUM || v < (swide)SEXP_MIN_FIXNUM;
}
#endif
