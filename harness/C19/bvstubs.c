/* recording contract stubs for the callees of the generated accessor wrappers */
#include "common.h"
int out_kind; __int128 out_s; unsigned __int128 out_u; double out_d;
static struct sexp_struct_token { long a, b; } token_obj;
sexp out_token = (sexp)&token_obj;
sexp sexp_make_integer(sexp ctx, sexp_lsint_t x) { out_kind = 1; out_s = x; return out_token; }
sexp sexp_make_unsigned_integer(sexp ctx, sexp_luint_t x) { out_kind = 2; out_u = x; return out_token; }
sexp sexp_make_flonum(sexp ctx, double f) { out_kind = 3; out_d = f; return out_token; }
sexp sexp_type_exception (sexp ctx, sexp self, sexp_uint_t type_id, sexp x) { return vf_exception(); }
sexp sexp_user_exception_ls (sexp ctx, sexp self, const char *msg, int n, ...) { return vf_exception(); }
sexp sexp_user_exception (sexp ctx, sexp self, const char *msg, sexp x) { return vf_exception(); }
