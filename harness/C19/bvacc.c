/* C19: numeric bytevector accessors generated from lib/scheme/bytevector.stub
 * by tools/chibi-ffi (regenerated from the working tree on every run).
 * Contract: for ANY fixnum index the accessor reads/writes exactly
 * [k, k+W) inside [0, len) or raises; set! then ref returns the value;
 * nothing outside [k, k+W) is written. */
#include "common.h"
#include <stdint.h>
#include "bytevector_gen.c"

long in_k; unsigned long in_v; int in_same_endian; unsigned in_j;
unsigned char in_data[LEN + 1];

/* recording stubs for the boxing constructors (defined in harness/C19/bvstubs.c) */
extern int out_kind; extern __int128 out_s; extern unsigned __int128 out_u; extern double out_d;
extern sexp out_token;

static unsigned long spec_read(const unsigned char *d, long k, int big) {
  unsigned long r = 0;
  for (int i = 0; i < W; i++) {
    unsigned long b = d[k + (big ? W - 1 - i : i)];
    r |= b << (8 * i);
  }
  return r;
}

#if ENDIAN
#define CALL_REF(bv, k, e)     REF(ctx, SEXP_FALSE, 3, bv, k, e)
#define CALL_SET(bv, k, v, e)  SET(ctx, SEXP_FALSE, 4, bv, k, v, e)
#else
#define CALL_REF(bv, k, e)     REF(ctx, SEXP_FALSE, 2, bv, k)
#define CALL_SET(bv, k, v, e)  SET(ctx, SEXP_FALSE, 3, bv, k, v)
#endif

void h_ref(void) {
  sexp ctx = vf_context();
  sexp host = sexp_global(ctx, SEXP_G_ENDIANNESS);
  in_same_endian = nondet_bool();
  sexp e = in_same_endian ? host : nondet_ptr();
  in_same_endian = (e == host);
  sexp bv = vf_bytes(LEN);
  for (int i = 0; i < LEN; i++) { in_data[i] = nondet_uchar(); sexp_bytes_data(bv)[i] = in_data[i]; }
  in_k = nondet_long();
  ASSUME(in_k >= SEXP_MIN_FIXNUM && in_k <= SEXP_MAX_FIXNUM);
  out_kind = 0;
  sexp r = CALL_REF(bv, sexp_make_fixnum(in_k), e);
  OBL(r == out_token || sexp_exceptionp(r), "ref.result: a value or an exception");
  if (r == out_token) {
    OBL(in_k >= 0 && in_k + W <= LEN, "ref.in_bounds: a value is returned only for [k,k+W) inside the bytevector");
    if (in_k >= 0 && in_k + W <= LEN) {
      unsigned long want = spec_read(in_data, in_k, ENDIAN && !in_same_endian);
#if KIND == 0
      OBL(out_kind == 2 && out_u == want, "ref.value: little/big-endian composition of the W bytes (unsigned)");
#elif KIND == 1
      long sw = (long)(want << (64 - 8 * W)) >> (64 - 8 * W);
      OBL(out_kind == 1 && out_s == sw, "ref.value: little/big-endian composition of the W bytes (signed)");
#else
      OBL(out_kind == 3, "ref.value: a flonum is produced");
#endif
    }
  }
  REACH();
}

void h_set(void) {
  sexp ctx = vf_context();
  sexp host = sexp_global(ctx, SEXP_G_ENDIANNESS);
  sexp e = nondet_bool() ? host : nondet_ptr();
  sexp bv = vf_bytes(LEN);
  for (int i = 0; i < LEN; i++) { in_data[i] = nondet_uchar(); sexp_bytes_data(bv)[i] = in_data[i]; }
  in_k = nondet_long();
  ASSUME(in_k >= SEXP_MIN_FIXNUM && in_k <= SEXP_MAX_FIXNUM);
  in_v = nondet_ulong();
#if KIND == 0
  ASSUME(W == 8 ? in_v <= SEXP_MAX_FIXNUM : in_v < (1UL << (8 * (W & 7))));
  sexp val = sexp_make_fixnum((long)in_v);
#elif KIND == 1
  long sv = (long)in_v;
  ASSUME(W == 8 ? (sv >= SEXP_MIN_FIXNUM && sv <= SEXP_MAX_FIXNUM) : (sv >= -(1L << (8 * (W & 7) - 1)) && sv < (1L << (8 * (W & 7) - 1))));
  sexp val = sexp_make_fixnum(sv);
#else
  sexp val = vf_obj(sexp_sizeof(flonum), SEXP_FLONUM);
  double dv; memcpy(&dv, &in_v, 8);
  ASSUME(dv == dv);
#if W == 4
  ASSUME(dv == (double)(float)dv);
#endif
  sexp_flonum_value(val) = dv;
#endif
  sexp r = CALL_SET(bv, sexp_make_fixnum(in_k), val, e);
  OBL(r == SEXP_VOID || sexp_exceptionp(r), "set.result: void or an exception");
  in_j = nondet_uint(); ASSUME(in_j < LEN + 1);
  if (r == SEXP_VOID) {
    OBL(in_k >= 0 && in_k + W <= LEN, "set.in_bounds: a store happens only for [k,k+W) inside the bytevector");
    if (in_k >= 0 && in_k + W <= LEN) {
      OBL(((long)in_j >= in_k && (long)in_j < in_k + W) || (unsigned char)sexp_bytes_data(bv)[in_j] == (in_j < LEN ? in_data[in_j] : 0),
          "set.frame: bytes outside [k,k+W) (and the trailing NUL) unchanged");
      out_kind = 0;
      sexp r2 = CALL_REF(bv, sexp_make_fixnum(in_k), e);
      OBL(r2 == out_token, "set_ref.result: ref after set! returns a value");
#if KIND == 0
      OBL(out_kind == 2 && out_u == in_v, "set_ref.roundtrip: ref after set! returns the value stored (unsigned)");
#elif KIND == 1
      OBL(out_kind == 1 && out_s == (long)in_v, "set_ref.roundtrip: ref after set! returns the value stored (signed)");
#else
      OBL(out_kind == 3 && out_d == dv, "set_ref.roundtrip: ref after set! returns the value stored (float)");
#endif
    }
  } else {
    OBL((unsigned char)sexp_bytes_data(bv)[in_j] == (in_j < LEN ? in_data[in_j] : 0), "set.error_frame: a rejected store writes nothing");
  }
  REACH();
}
