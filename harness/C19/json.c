/* C19 (JSON strings): json_read_string / decode_useq of lib/chibi/json.c on a string port holding one escape sequence
 * and the closing quote.  Contract from RFC 8259 section 7 (which is what json_write_string of the same file emits):
 *   \b \f \n \r \t \" \\ \/  decode to U+0008 U+000C U+000A U+000D U+0009 " \ /;
 *   \uXXXX decodes to that code unit; a high surrogate followed by \uDC00..\uDFFF decodes to
 *   0x10000 + ((H - 0xD800) << 10) + (L - 0xDC00); the result is the UTF-8 encoding of the code point. */
#include "vm/vm.h"
#include <ctype.h>
#undef isxdigit
#undef isdigit
#undef isspace
#undef tolower
static int verif_isdigit(int c) { return c >= '0' && c <= '9'; }
static int verif_isxdigit(int c) { return (c >= '0' && c <= '9') || (c >= 'a' && c <= 'f') || (c >= 'A' && c <= 'F'); }
static int verif_isspace(int c) { return c == ' ' || (c >= 9 && c <= 13); }
static int verif_tolower(int c) { return (c >= 'A' && c <= 'Z') ? c + 32 : c; }
#define isxdigit verif_isxdigit
#define isdigit verif_isdigit
#define isspace verif_isspace
#define tolower verif_tolower
#include "lib/chibi/json.c"
/* sexp_c_string: records the bytes it is given (the contract of the real one: a string with exactly these bytes) */
static unsigned char got[12]; static long got_len = -1; static struct vm_pair_t str_token;
sexp sexp_c_string (sexp ctx, const char *str, sexp_sint_t slen) {
  if (got_len < 0) { got_len = slen; for (int k = 0; k < 12; k++) if (k < slen) got[k] = (unsigned char)str[k]; }
  str_token.h.tag = SEXP_STRING; return (sexp)&str_token;
}
static char buf[16];
static struct { unsigned int tag; char markedp; unsigned char flags; unsigned short pad0; sexp name, cookie, fd; FILE *stream; char *buf;
  char openp, bidirp, binaryp, shutdownp, no_closep, sourcep, blockedp, fold_casep; sexp_uint_t offset, line, flags2; size_t size; } pt;
_Static_assert(offsetof(__typeof__(pt), size) == offsetof(struct sexp_struct, value.port.size), "port layout");
unsigned char in_x, in_h[4], in_l[4];
static int hexval(int c) { return c <= '9' ? c - '0' : (c | 32) - 'a' + 10; }
static sexp run(int n) {
  vm_ctx_obj.h.tag = SEXP_CONTEXT; verif_register(&vm_ctx_obj); vm_ctx_obj.saves = NULL;
  vm_globals_obj.h.tag = SEXP_VECTOR; vm_globals_obj.length = SEXP_G_NUM_GLOBALS; verif_register(&vm_globals_obj); vm_ctx_obj.globals = (sexp)&vm_globals_obj;
  buf[n] = '"'; buf[n + 1] = 0;
  pt.tag = SEXP_IPORT; pt.openp = 1; pt.buf = buf; pt.size = n + 1; pt.offset = 0; pt.stream = NULL; pt.name = SEXP_FALSE; verif_register(&pt);
  return json_read_string((sexp)&vm_ctx_obj, NULL, (sexp)&pt);
}
static void expect_cp(sexp r, long cp) {
  OBL(r == (sexp)&str_token, "json_string.result: a string");
  int w = cp < 0x80 ? 1 : cp < 0x800 ? 2 : cp < 0x10000 ? 3 : 4;
  unsigned char e[4];
  if (w == 1) { e[0] = cp; } else if (w == 2) { e[0] = 0xC0 | (cp >> 6); e[1] = 0x80 | (cp & 0x3F); }
  else if (w == 3) { e[0] = 0xE0 | (cp >> 12); e[1] = 0x80 | ((cp >> 6) & 0x3F); e[2] = 0x80 | (cp & 0x3F); }
  else { e[0] = 0xF0 | (cp >> 18); e[1] = 0x80 | ((cp >> 12) & 0x3F); e[2] = 0x80 | ((cp >> 6) & 0x3F); e[3] = 0x80 | (cp & 0x3F); }
  OBL(got_len == w, "json_string.length: exactly the bytes of one character");
  for (int k = 0; k < 4; k++) if (k < w) OBL(got[k] == e[k], "json_string.value: the escape decodes to the character RFC 8259 assigns to it (UTF-8 bytes)");
}
void h_json_escape(void) {                 /* two-character escapes */
  in_x = nondet_uchar(); __CPROVER_assume(in_x == 'b' || in_x == 'f' || in_x == 'n' || in_x == 'r' || in_x == 't' || in_x == '"' || in_x == '\\' || in_x == '/');
  buf[0] = '\\'; buf[1] = in_x;
  sexp r = run(2);
  long cp = in_x == 'b' ? 8 : in_x == 'f' ? 12 : in_x == 'n' ? 10 : in_x == 'r' ? 13 : in_x == 't' ? 9 : in_x;
  expect_cp(r, cp);
  REACH();
}
static void hexdigits(unsigned char *d, int k0, int n) { for (int k = k0; k < n; k++) { d[k] = nondet_uchar(); __CPROVER_assume(verif_isxdigit(d[k])); } }
void h_json_unicode(void) {                /* \uXXXX, not a surrogate */
  hexdigits(in_h, 0, 4);
  long u = (hexval(in_h[0]) << 12) | (hexval(in_h[1]) << 8) | (hexval(in_h[2]) << 4) | hexval(in_h[3]);
  __CPROVER_assume(u > 0 && !(u >= 0xD800 && u <= 0xDFFF));
  buf[0] = '\\'; buf[1] = 'u'; for (int k = 0; k < 4; k++) buf[2 + k] = in_h[k];
  sexp r = run(6);
  expect_cp(r, u);
  REACH();
}
void h_json_surrogates(void) {             /* \uD8xx-\uDBxx followed by \uDCxx-\uDFxx */
  hexdigits(in_h, 0, 4); hexdigits(in_l, 0, 4);
  long h = (hexval(in_h[0]) << 12) | (hexval(in_h[1]) << 8) | (hexval(in_h[2]) << 4) | hexval(in_h[3]);
  long l = (hexval(in_l[0]) << 12) | (hexval(in_l[1]) << 8) | (hexval(in_l[2]) << 4) | hexval(in_l[3]);
  __CPROVER_assume(h >= 0xD800 && h <= 0xDBFF && l >= 0xDC00 && l <= 0xDFFF);
  buf[0] = '\\'; buf[1] = 'u'; for (int k = 0; k < 4; k++) buf[2 + k] = in_h[k];
  buf[6] = '\\'; buf[7] = 'u'; for (int k = 0; k < 4; k++) buf[8 + k] = in_l[k];
  sexp r = run(12);
  expect_cp(r, 0x10000 + ((h - 0xD800) << 10) + (l - 0xDC00));
  REACH();
}
