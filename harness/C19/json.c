/* C19 (JSON strings): json_read_string / decode_useq of lib/chibi/json.c on a string port holding one escape sequence
 * and the closing quote.  Contract from RFC 8259 section 7 (which is what json_write_string of the same file emits):
 *   \b \f \n \r \t \" \\ \/  decode to U+0008 U+000C U+000A U+000D U+0009 " \ /;
 *   \uXXXX decodes to that code unit; a high surrogate followed by \uDC00..\uDFFF decodes to
 *   0x10000 + ((H - 0xD800) << 10) + (L - 0xDC00); the result is the UTF-8 encoding of the code point. */
#include "vm/vm.h"
#include <ctype.h>
#undef isxdigit
#undef isdigit
#undef isspace
#undef tolower
static int verif_isdigit(int c) { return c >= '0' && c <= '9'; }
static int verif_isxdigit(int c) { return (c >= '0' && c <= '9') || (c >= 'a' && c <= 'f') || (c >= 'A' && c <= 'F'); }
static int verif_isspace(int c) { return c == ' ' || (c >= 9 && c <= 13); }
static int verif_tolower(int c) { return (c >= 'A' && c <= 'Z') ? c + 32 : c; }
#define isxdigit verif_isxdigit
#define isdigit verif_isdigit
#define isspace verif_isspace
#define tolower verif_tolower
/* snprintf for the two formats json_write_string uses ("\\u%04lX" and "\\u%04lX\\u%04lX"); CBMC has no model of snprintf */
#include <stdarg.h>
static int verif_hex4(char *o, unsigned long v) { int n = 0; for (int sh = 12; sh >= 0; sh -= 4) { int d = (v >> sh) & 15; o[n++] = d < 10 ? '0' + d : 'A' + d - 10; } return n; }
static int verif_snprintf(char *out, unsigned long size, const char *fmt, ...) {
  va_list ap; va_start(ap, fmt); int n = 0;
  __CPROVER_assert(fmt[0] == '\\' && fmt[1] == 'u' && fmt[2] == '%' && fmt[6] == 'X', "snprintf.model: only the \\u%04lX formats are modelled");
  unsigned long a = va_arg(ap, unsigned long);
  __CPROVER_assert(a <= 0xFFFF, "snprintf.model: four hex digits suffice");
  out[n++] = '\\'; out[n++] = 'u'; n += verif_hex4(out + n, a);
  if (fmt[7] == '\\') { unsigned long b = va_arg(ap, unsigned long); __CPROVER_assert(b <= 0xFFFF, "snprintf.model: four hex digits suffice"); out[n++] = '\\'; out[n++] = 'u'; n += verif_hex4(out + n, b); }
  out[n] = 0; va_end(ap); return n;
}
#define snprintf verif_snprintf
#include "lib/chibi/json.c"
#undef snprintf
/* sexp_c_string: records the bytes it is given (the contract of the real one: a string with exactly these bytes) */
static unsigned char got[12]; static long got_len = -1; static struct vm_pair_t str_token;
sexp sexp_c_string (sexp ctx, const char *str, sexp_sint_t slen) {
  if (got_len < 0) { got_len = slen; for (int k = 0; k < 12; k++) if (k < slen) got[k] = (unsigned char)str[k]; }
  str_token.h.tag = SEXP_STRING; return (sexp)&str_token;
}
static char buf[16];
static struct { unsigned int tag; char markedp; unsigned char flags; unsigned short pad0; sexp name, cookie, fd; FILE *stream; char *buf;
  char openp, bidirp, binaryp, shutdownp, no_closep, sourcep, blockedp, fold_casep; sexp_uint_t offset, line, flags2; size_t size; } pt;
_Static_assert(offsetof(__typeof__(pt), size) == offsetof(struct sexp_struct, value.port.size), "port layout");
unsigned char in_x, in_h[4], in_l[4];
static int hexval(int c) { return c <= '9' ? c - '0' : (c | 32) - 'a' + 10; }
static sexp run(int n) {
  vm_ctx_obj.h.tag = SEXP_CONTEXT; verif_register(&vm_ctx_obj); vm_ctx_obj.saves = NULL;
  vm_globals_obj.h.tag = SEXP_VECTOR; vm_globals_obj.length = SEXP_G_NUM_GLOBALS; verif_register(&vm_globals_obj); vm_ctx_obj.globals = (sexp)&vm_globals_obj;
  buf[n] = '"'; buf[n + 1] = 0;
  pt.tag = SEXP_IPORT; pt.openp = 1; pt.buf = buf; pt.size = n + 1; pt.offset = 0; pt.stream = NULL; pt.name = SEXP_FALSE; verif_register(&pt);
  return json_read_string((sexp)&vm_ctx_obj, NULL, (sexp)&pt);
}
static void expect_cp(sexp r, long cp) {
  OBL(r == (sexp)&str_token, "json_string.result: a string");
  int w = cp < 0x80 ? 1 : cp < 0x800 ? 2 : cp < 0x10000 ? 3 : 4;
  unsigned char e[4];
  if (w == 1) { e[0] = cp; } else if (w == 2) { e[0] = 0xC0 | (cp >> 6); e[1] = 0x80 | (cp & 0x3F); }
  else if (w == 3) { e[0] = 0xE0 | (cp >> 12); e[1] = 0x80 | ((cp >> 6) & 0x3F); e[2] = 0x80 | (cp & 0x3F); }
  else { e[0] = 0xF0 | (cp >> 18); e[1] = 0x80 | ((cp >> 12) & 0x3F); e[2] = 0x80 | ((cp >> 6) & 0x3F); e[3] = 0x80 | (cp & 0x3F); }
  OBL(got_len == w, "json_string.length: exactly the bytes of one character");
  for (int k = 0; k < 4; k++) if (k < w) OBL(got[k] == e[k], "json_string.value: the escape decodes to the character RFC 8259 assigns to it (UTF-8 bytes)");
}
void h_json_escape(void) {                 /* two-character escapes */
  in_x = nondet_uchar(); __CPROVER_assume(in_x == 'b' || in_x == 'f' || in_x == 'n' || in_x == 'r' || in_x == 't' || in_x == '"' || in_x == '\\' || in_x == '/');
  buf[0] = '\\'; buf[1] = in_x;
  sexp r = run(2);
  long cp = in_x == 'b' ? 8 : in_x == 'f' ? 12 : in_x == 'n' ? 10 : in_x == 'r' ? 13 : in_x == 't' ? 9 : in_x;
  expect_cp(r, cp);
  REACH();
}
static void hexdigits(unsigned char *d, int k0, int n) { for (int k = k0; k < n; k++) { d[k] = nondet_uchar(); __CPROVER_assume(verif_isxdigit(d[k])); } }
void h_json_unicode(void) {                /* \uXXXX, not a surrogate */
  hexdigits(in_h, 0, 4);
  long u = (hexval(in_h[0]) << 12) | (hexval(in_h[1]) << 8) | (hexval(in_h[2]) << 4) | hexval(in_h[3]);
  __CPROVER_assume(u > 0 && !(u >= 0xD800 && u <= 0xDFFF));
  buf[0] = '\\'; buf[1] = 'u'; for (int k = 0; k < 4; k++) buf[2 + k] = in_h[k];
  sexp r = run(6);
  expect_cp(r, u);
  REACH();
}
void h_json_surrogates(void) {             /* \uD8xx-\uDBxx followed by \uDCxx-\uDFxx */
  hexdigits(in_h, 0, 4); hexdigits(in_l, 0, 4);
  long h = (hexval(in_h[0]) << 12) | (hexval(in_h[1]) << 8) | (hexval(in_h[2]) << 4) | hexval(in_h[3]);
  long l = (hexval(in_l[0]) << 12) | (hexval(in_l[1]) << 8) | (hexval(in_l[2]) << 4) | hexval(in_l[3]);
  __CPROVER_assume(h >= 0xD800 && h <= 0xDBFF && l >= 0xDC00 && l <= 0xDFFF);
  buf[0] = '\\'; buf[1] = 'u'; for (int k = 0; k < 4; k++) buf[2 + k] = in_h[k];
  buf[6] = '\\'; buf[7] = 'u'; for (int k = 0; k < 4; k++) buf[8 + k] = in_l[k];
  sexp r = run(12);
  expect_cp(r, 0x10000 + ((h - 0xD800) << 10) + (l - 0xDC00));
  REACH();
}

/* ---- the writer, and writer followed by reader (the pair must be inverse) ---- */
#ifndef W
#define W 1
#endif
static char obuf[40];
static __typeof__(pt) op;
/* sexp.c:sexp_buffered_write_string on a port whose buffer has room: appends the bytes (the contract of the real one) */
int sexp_buffered_write_string (sexp ctx, const char *str, sexp p) {
  __CPROVER_assert(p == (sexp)&op, "write.port: the output port");
  for (int k = 0; k < 14 && str[k]; k++) { __CPROVER_assert(op.offset < 39, "harness.bound: output buffer sufficed"); if (op.offset < 39) obuf[op.offset++] = str[k]; }
  return 0;
}
static struct __attribute__((packed)) { struct vm_hdr h; unsigned long length; char data[W + 1]; } sbytes;
static struct { struct vm_hdr h; sexp bytes; unsigned long offset, length; } sstr;
int in_cp; unsigned char in_b[4];
void h_json_write_read(void) {
  in_cp = nondet_int();
  __CPROVER_assume(in_cp >= 0 && in_cp <= 0x10FFFF && !(in_cp >= 0xD800 && in_cp <= 0xDFFF));
  __CPROVER_assume((W == 1) ? in_cp < 0x80 : (W == 2) ? (in_cp >= 0x80 && in_cp < 0x800) : (W == 3) ? (in_cp >= 0x800 && in_cp < 0x10000) : in_cp >= 0x10000);
  if (W == 1) in_b[0] = in_cp; else if (W == 2) { in_b[0] = 0xC0 | (in_cp >> 6); in_b[1] = 0x80 | (in_cp & 0x3F); }
  else if (W == 3) { in_b[0] = 0xE0 | (in_cp >> 12); in_b[1] = 0x80 | ((in_cp >> 6) & 0x3F); in_b[2] = 0x80 | (in_cp & 0x3F); }
  else { in_b[0] = 0xF0 | (in_cp >> 18); in_b[1] = 0x80 | ((in_cp >> 12) & 0x3F); in_b[2] = 0x80 | ((in_cp >> 6) & 0x3F); in_b[3] = 0x80 | (in_cp & 0x3F); }
  sbytes.h.tag = SEXP_BYTES; sbytes.length = W; for (int k = 0; k < W; k++) sbytes.data[k] = in_b[k]; sbytes.data[W] = 0; verif_register(&sbytes);
  sstr.h.tag = SEXP_STRING; sstr.bytes = (sexp)&sbytes; sstr.offset = 0; sstr.length = W; verif_register(&sstr);
  vm_ctx_obj.h.tag = SEXP_CONTEXT; verif_register(&vm_ctx_obj); vm_ctx_obj.saves = NULL;
  vm_globals_obj.h.tag = SEXP_VECTOR; vm_globals_obj.length = SEXP_G_NUM_GLOBALS; verif_register(&vm_globals_obj); vm_ctx_obj.globals = (sexp)&vm_globals_obj;
  op.tag = SEXP_OPORT; op.openp = 1; op.buf = obuf; op.size = 39; op.offset = 0; op.stream = NULL; op.name = SEXP_FALSE; verif_register(&op);
  sexp w = json_write_string((sexp)&vm_ctx_obj, NULL, (sexp)&sstr, (sexp)&op);
  OBL(!sexp_exceptionp(w), "json_write.total: every string of scalar values can be written");
  long n = op.offset;
  OBL(n >= 3 && n <= 14 && obuf[0] == '"' && obuf[n - 1] == '"', "json_write.quoted: the text is enclosed in double quotes");
  __CPROVER_assume(n >= 3 && n <= 14);
  /* RFC 8259 section 7: inside the quotes no raw quotation mark, no raw control character, and a reverse solidus only as the start of an escape */
  for (int k = 1; k < 13; k++) if (k < n - 1) {
    unsigned char c = obuf[k];
    OBL(c >= 0x20, "json_write.no_raw_control: control characters U+0000..U+001F are escaped");
    OBL(c != '"' || obuf[k - 1] == '\\', "json_write.no_raw_quote: a quotation mark inside the string is escaped");
  }
  /* the reader of the same file decodes the text back to the same string */
  for (int k = 0; k < 14; k++) buf[k] = (k + 1 < n) ? obuf[k + 1] : 0;
  pt.tag = SEXP_IPORT; pt.openp = 1; pt.buf = buf; pt.size = n - 1; pt.offset = 0; pt.stream = NULL; pt.name = SEXP_FALSE; verif_register(&pt);
  sexp r = json_read_string((sexp)&vm_ctx_obj, NULL, (sexp)&pt);
  OBL(r == (sexp)&str_token && got_len == W, "json_roundtrip.length: string->json (json->string s) has the length of s");
  for (int k = 0; k < 4; k++) if (k < W) OBL(got[k] == in_b[k], "json_roundtrip.value: string->json (json->string s) == s");
  REACH();
}

/* JSON numbers: json_read_number consumes the whole numeric token of RFC 8259 section 6
 *   [-] int [ . frac ] [ (e|E) [+|-] digits ]
 * (which is also everything json_write_flonum's "%.*G" can emit).  The token shape is a constant of the instance, the digits
 * are symbolic; the arithmetic (pow, the double accumulation) is not specified here - only that nothing of the token is left
 * unread (a reader that stops at the exponent returns 1.5 for "1.5E+10") and that the kind of the result is right. */
#ifndef NUMSHAPE
#define NUMSHAPE 0     /* bit 0: fraction, bit 1: exponent, bit 2: upper-case E, bits 3-4: exponent sign (0 none, 1 '+', 2 '-'), bit 5: leading '-' */
#endif
double pow(double x, double y) { double r; return r; }          /* unspecified: the value is not the subject of this group */
double fabs(double x) { return x < 0 ? -x : x; }               /* havoc_keep gives every body-less function an arbitrary result, libc included: fabs is defined here */
static struct vm_flo_t flo_token;
sexp sexp_make_flonum (sexp ctx, double f) { flo_token.h.tag = SEXP_FLONUM; flo_token.value = f; return (sexp)&flo_token; }
unsigned char in_nd[6];
void h_json_number(void) {
  int n = 0;
  for (int k = 0; k < 6; k++) { in_nd[k] = nondet_uchar(); __CPROVER_assume(in_nd[k] <= 9); }
  if (NUMSHAPE & 32) buf[n++] = '-';
  buf[n++] = '1' + (in_nd[0] % 9); buf[n++] = '0' + in_nd[1];
  if (NUMSHAPE & 1) { buf[n++] = '.'; buf[n++] = '0' + in_nd[2]; buf[n++] = '0' + in_nd[3]; }
  if (NUMSHAPE & 2) { buf[n++] = (NUMSHAPE & 4) ? 'E' : 'e'; if (((NUMSHAPE >> 3) & 3) == 1) buf[n++] = '+'; if (((NUMSHAPE >> 3) & 3) == 2) buf[n++] = '-'; buf[n++] = '0' + in_nd[4]; buf[n++] = '0' + in_nd[5]; }
  int toklen = n;
  buf[n++] = ','; buf[n] = 0;
  vm_ctx_obj.h.tag = SEXP_CONTEXT; verif_register(&vm_ctx_obj); vm_ctx_obj.saves = NULL;
  pt.tag = SEXP_IPORT; pt.openp = 1; pt.buf = buf; pt.size = n; pt.offset = 0; pt.stream = NULL; pt.name = SEXP_FALSE; verif_register(&pt);
  sexp r = json_read_number((sexp)&vm_ctx_obj, NULL, (sexp)&pt);
  OBL(pt.offset == (unsigned long)toklen, "json_number.consumes: the whole numeric token is read (fraction AND exponent, e or E), the delimiter is left in the port");
  OBL((NUMSHAPE & 3) ? (r == (sexp)&flo_token) : sexp_fixnump(r), "json_number.kind: an integer token reads as an exact integer, a token with fraction or exponent as a flonum");
  REACH();
}
