/* C19: mini-float codecs of sexp.c (f8 / f16 uniform vectors).
 * Finite domains, CBMC's bit-precise IEEE floats: proved. */
#include "common.h"
#include <math.h>
#include "sexp.c"

unsigned in_q;
double in_f;
double nondet_double(void);
/* 2^k for -1022 <= k <= 1023, built from its IEEE-754 bits (harness-side spec helper) */
static double p2(int k) { union { unsigned long u; double d; } x; x.u = (unsigned long)(k + 1023) << 52; return x.d; }

void h_quarter_roundtrip(void) {
  in_q = nondet_uint();
  ASSUME(in_q < 256 && (in_q & 127) <= SEXP_QUARTERS_INFINITY_INDEX);
  ASSUME(in_q != 128);     /* -0.0 encodes as +0.0 (numerically equal); excluded, listed in the evidence */
  double d = sexp_quarter_to_double((unsigned char)in_q);
  unsigned char q2 = sexp_double_to_quarter(d);
  OBL(q2 == in_q, "quarter.roundtrip: double_to_quarter(quarter_to_double(q)) == q");
  OBL(sexp_quarter_to_double(q2) == d, "quarter.decode_encode_decode: value preserved");
  REACH();
}

void h_quarter_table(void) {
  in_q = nondet_uint();
  ASSUME(in_q < SEXP_QUARTERS_INFINITY_INDEX);
  OBL(sexp_quarters[in_q] < sexp_quarters[in_q + 1], "quarter.table_sorted: strictly increasing (binary-search precondition)");
  OBL(sizeof(sexp_quarters) / sizeof(double) == 128, "quarter.table_size: 128 entries");
  REACH();
}

/* encoder total on every double, result is a nearest table entry */
void h_quarter_total(void) {
  in_f = nondet_double();
  unsigned char q = sexp_double_to_quarter(in_f);
  unsigned idx = q & 127;
  if (isnan(in_f)) {
    OBL(idx == SEXP_QUARTERS_NAN_INDEX, "quarter.nan: NaN encodes as the NaN code");
  } else {
    OBL(idx <= SEXP_QUARTERS_INFINITY_INDEX, "quarter.total: result is a table code");
    double a = in_f < 0 ? -in_f : in_f;
    OBL((q >= 128) == (in_f < 0), "quarter.sign: sign bit is the sign of the input");
    if (!isinf(in_f) && a <= sexp_quarters[SEXP_QUARTERS_INFINITY_INDEX - 1]) {
      double mine = sexp_quarters[idx] > a ? sexp_quarters[idx] - a : a - sexp_quarters[idx];
      if (idx > 0) {
        double lo = a - sexp_quarters[idx - 1];
        OBL(sexp_quarters[idx - 1] > a || mine <= lo, "quarter.nearest_below: not farther than the entry below");
      }
      if (idx < SEXP_QUARTERS_INFINITY_INDEX - 1) {
        double hi = sexp_quarters[idx + 1] - a;
        OBL(sexp_quarters[idx + 1] < a || mine <= hi, "quarter.nearest_above: not farther than the entry above");
      }
    }
  }
  REACH();
}

void h_half_roundtrip(void) {
  in_q = nondet_uint();
  ASSUME(in_q < 65536);
  /* IEEE binary16 codes: finite (exponent < 31), the two infinities, and the one NaN code the writer emits */
  ASSUME(((in_q >> 10) & 31) < 31 || in_q == 31744 || in_q == 64512 || in_q == 32767);
  double d = sexp_half_to_double((unsigned short)in_q);
  unsigned short h2 = sexp_double_to_half(d);
  OBL(h2 == in_q, "half.roundtrip: double_to_half(half_to_double(h)) == h");
  /* value of a finite code per IEEE 754 binary16 */
  if (((in_q >> 10) & 31) < 31) {
    unsigned e = (in_q >> 10) & 31, m = in_q & 1023;
    double mag = e == 0 ? (double)m * p2(-24) : (double)(1024 + m) * p2((int)e - 25);
    OBL(d == ((in_q & 0x8000) ? -mag : mag), "half.value: decodes to the IEEE binary16 value");
  }
  REACH();
}

void h_half_total(void) {
  in_f = nondet_double();
  unsigned short h = sexp_double_to_half(in_f);
  if (isnan(in_f)) OBL(h == 32767, "half.nan: NaN encodes as the NaN code");
  else if (isinf(in_f)) OBL(h == (in_f < 0 ? 64512 : 31744), "half.inf: infinities");
  REACH();
}
