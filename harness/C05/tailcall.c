/* C05: a tail call replaces the caller's frame instead of stacking a new one.
 * Extracted text of `case SEXP_OP_TAIL_CALL` (ends in `goto make_call`) followed by the extracted
 * `make_call` block of `case SEXP_OP_CALL`.  Frame shapes are constants of the instance:
 * J0 = caller's parameter count, NTMP = caller temporaries above its frame, N = arguments of the call. */
#include "vm/vm.h"
#include "vm_ops.c"

sexp in_param[4], in_tmp[6], in_callarg[4]; long in_prevfp, in_retoff;
/* purpose-built layout structs (fields written through the accessor casts fold only for plain
 * structs, not for the union of struct sexp_struct); offsets checked against the real type below */
struct proc_t { struct vm_hdr h; sexp bc, vars; char flags; sexp_proc_num_args_t num_args; };
struct bcode_t { struct vm_hdr h; sexp name, literals, source; sexp_uint_t length, max_depth; sexp data[2]; };   /* 16 code bytes, typed as two operand words so that ((sexp*)ip)[0] folds */
static struct proc_t callee_obj, caller_obj, outer_obj;
static struct bcode_t callee_bc, caller_bc;
_Static_assert(offsetof(struct proc_t, bc) == offsetof(struct sexp_struct, value.procedure.bc) && offsetof(struct proc_t, flags) == offsetof(struct sexp_struct, value.procedure.flags)
               && offsetof(struct proc_t, num_args) == offsetof(struct sexp_struct, value.procedure.num_args), "procedure layout");
_Static_assert(offsetof(struct bcode_t, max_depth) == offsetof(struct sexp_struct, value.bytecode.max_depth) && offsetof(struct bcode_t, data) == sexp_sizeof(bytecode), "bytecode layout");
static sexp code_words[4];          /* typed as sexp: the inline operand reads ((sexp*)ip)[k] fold */

static void mk_proc(struct proc_t *p, struct bcode_t *bc, int nargs, int flags) {
  p->h.tag = SEXP_PROCEDURE; bc->h.tag = SEXP_BYTECODE; verif_register(p); verif_register(bc);
  p->bc = (sexp)bc; p->vars = SEXP_FALSE; p->num_args = nargs; p->flags = flags;
  bc->max_depth = 4; bc->length = 16;
}

static void vm_init(struct verif_vm *S) {
  vm_ctx_obj.h.tag = SEXP_CONTEXT; verif_register(&vm_ctx_obj);
  vm_stack_obj.h.tag = SEXP_STACK; vm_stack_obj.length = VM_STACK_SLOTS; verif_register(&vm_stack_obj);
  vm_globals_obj.h.tag = SEXP_VECTOR; vm_globals_obj.length = SEXP_G_NUM_GLOBALS; verif_register(&vm_globals_obj);
  sexp ctx = (sexp)&vm_ctx_obj;
  sexp_context_stack(ctx) = (sexp)&vm_stack_obj; sexp_context_globals(ctx) = (sexp)&vm_globals_obj; sexp_context_saves(ctx) = NULL;
  S->ctx = ctx; S->root_thread = ctx; S->fuel = 100; S->stack = vm_stack_obj.data;
  S->bc = SEXP_FALSE; S->cp = SEXP_FALSE; S->tmp = SEXP_VOID; S->self = SEXP_FALSE; S->tmp1 = SEXP_VOID; S->tmp2 = SEXP_VOID; S->i = S->j = S->k = 0;
}

#ifndef VARIADIC
#define VARIADIC 0
#endif
#ifndef EXTRA
#define EXTRA 0          /* variadic callee: number of actual arguments beyond its fixed parameters (collected into the rest list) */
#endif
#define NFIX (N - EXTRA) /* fixed parameters of the callee */
#if VARIADIC
#define NFRAME (NFIX + 1)        /* the callee sees its fixed parameters and one rest list */
#else
#define NFRAME N
#endif

void h_tail_call(void) {
  struct verif_vm S; vm_init(&S);
  mk_proc(&callee_obj, &callee_bc, VARIADIC ? NFIX : N, VARIADIC ? (char)(sexp_uint_t)sexp_make_fixnum(SEXP_PROC_VARIADIC) : 0);     /* the flags byte holds a tagged fixnum, as sexp_make_procedure stores it */
  mk_proc(&caller_obj, &caller_bc, J0, 0);       /* the running procedure */
  mk_proc(&outer_obj, &caller_bc, 0, 0);         /* whoever called it (return link) */
  sexp *st = S.stack;
  long fp0 = VM_BASE + J0;
  in_prevfp = nondet_long(); __CPROVER_assume(in_prevfp >= 0 && in_prevfp < VM_BASE);
  in_retoff = nondet_long(); __CPROVER_assume(in_retoff >= 8 && in_retoff <= 16);   /* a return offset inside the caller's bytecode */
  for (int k = 0; k < J0; k++) { in_param[k] = vm_any_immediate(); st[fp0 - J0 + k] = in_param[k]; }
  st[fp0] = sexp_make_fixnum(J0); st[fp0 + 1] = sexp_make_fixnum(in_retoff); st[fp0 + 2] = (sexp)&outer_obj; st[fp0 + 3] = sexp_make_fixnum(in_prevfp);
  long top0 = fp0 + 4;
  for (int k = 0; k < NTMP; k++) { in_tmp[k] = vm_any_immediate(); st[top0++] = in_tmp[k]; }
  for (int k = 0; k < N; k++) { in_callarg[k] = vm_any_immediate(); st[top0++] = in_callarg[k]; }
  st[top0++] = (sexp)&callee_obj;
  S.fp = fp0; S.top = top0; S.self = (sexp)&caller_obj; S.bc = (sexp)&caller_bc;
  caller_bc.data[0] = sexp_make_fixnum(N);          /* the instruction's inline operand, inside the caller's bytecode */
  S.ip = (unsigned char*)caller_bc.data;
#if TAIL
  int ex = verif_op_TAIL_CALL(&S);
  OBL(ex == VERIF_EXIT_MAKE_CALL, "tail_call.exit: continues into make_call");
  OBL(S.top == fp0 - J0 + N + 1, "tail_call.top: the callee and its arguments sit where the caller's parameters were: top == fp0 - j0 + n + 1");
  OBL(S.fp == in_prevfp, "tail_call.fp: fp is the caller's saved frame pointer");
  OBL(S.i == N && S.tmp1 == (sexp)&callee_obj && st[S.top - 1] == (sexp)&callee_obj, "tail_call.callee: procedure and argument count handed to make_call");
  for (int k = 0; k < N; k++) OBL(st[fp0 - J0 + k] == in_callarg[k], "tail_call.args_moved: the n arguments are moved into the caller's parameter slots in order");
  OBL(S.self == (sexp)&outer_obj && S.ip == (unsigned char*)sexp_bytecode_data((sexp)&caller_bc) + in_retoff - sizeof(sexp), "tail_call.return_link: self/ip restored to the caller's return link");
  ex = verif_op_CALL__make_call(&S);
  OBL(ex == VERIF_EXIT_NEXT, "make_call.exit: the call completes");
  OBL(S.fp == fp0 - J0 + NFRAME, "tail_call.frame_replaced: new fp == fp0 - j0 + (parameters of the callee), independent of the caller's temporaries and of the number of rest arguments");
  OBL(S.top == S.fp + 4, "tail_call.frame_top: top == fp + 4");
  OBL(st[S.fp + 1] == sexp_make_fixnum(in_retoff) && st[S.fp + 2] == (sexp)&outer_obj && st[S.fp + 3] == sexp_make_fixnum(in_prevfp),
      "tail_call.link: the new frame returns where the caller would have returned (return offset, self, previous fp)");
#else
  int ex = verif_op_CALL(&S);
  OBL(ex == VERIF_EXIT_NEXT, "call.exit: the call completes");
  OBL(S.fp == top0 - 1 - (N - NFRAME), "call.frame_stacked: a non-tail call builds its frame above the caller's temporaries: fp == top0 - 1 (less the rest arguments folded into one list)");
  OBL(S.top == S.fp + 4, "call.frame_top: top == fp + 4");
  OBL(st[S.fp + 2] == (sexp)&caller_obj && st[S.fp + 3] == sexp_make_fixnum(fp0), "call.link: the new frame returns into the caller (self, fp)");
  for (int k = 0; k < NTMP; k++) OBL(st[fp0 + 4 + k] == in_tmp[k], "call.temporaries_kept: the caller's temporaries are untouched");
#endif
  OBL(st[S.fp] == sexp_make_fixnum(NFRAME), "frame.nargs: frame records the argument count (fixed parameters plus one rest list for a variadic callee)");
#if VARIADIC
  /* arguments are pushed last-first: the EXTRA lowest slots are the trailing actual arguments; they are collected, in argument order, into the list in the lowest slot */
  for (int k = 0; k < NFIX; k++) OBL(st[S.fp - NFIX + k] == in_callarg[EXTRA + k], "frame.args: fixed arguments below the frame in order");
  { sexp l = st[S.fp - NFRAME];
    for (int m = 0; m < EXTRA; m++) { OBL(sexp_pairp(l) && sexp_car(l) == in_callarg[EXTRA - 1 - m], "frame.rest: the rest list holds exactly the extra arguments, in argument order"); if (sexp_pairp(l)) l = sexp_cdr(l); }
    OBL(l == SEXP_NULL, "frame.rest_end: ... and nothing else"); }
#else
  for (int k = 0; k < N; k++) OBL(st[S.fp - N + k] == in_callarg[k], "frame.args: arguments below the frame in order");
#endif
  OBL(S.self == (sexp)&callee_obj && S.ip == (unsigned char*)sexp_bytecode_data((sexp)&callee_bc), "frame.control: control is at the first instruction of the callee");
  OBL(sexp_context_top(S.ctx) <= S.top, "frame.published_top: the published top does not exceed top");
  REACH();
}

/* apply with a stack that has to grow while OP_APPLY1 executes: sexp_ensure_stack must publish the
 * current top before sexp_grow_stack copies the live slots.  The published top on entry is the one
 * make_call left when the running procedure was entered (fp + 1), i.e. stale by the frame words and
 * everything pushed since. */
#ifdef GROW
static struct { struct vm_hdr h; unsigned long length, top; sexp data[2 * VM_STACK_SLOTS]; } grown_stack;
sexp sexp_alloc_tagged_aux(sexp ctx, size_t size, sexp_uint_t tag) {
  __CPROVER_assert(size == sexp_sizeof(stack) + sizeof(sexp) * 2 * VM_STACK_SLOTS, "apply1_grow.alloc: the stack doubles");
  grown_stack.h.tag = tag; verif_register(&grown_stack); return (sexp)&grown_stack;
}
sexp sexp_length_op (sexp ctx, sexp self, sexp_sint_t n, sexp ls) { long k = 0; for (; sexp_pairp(ls) && k < 4; ls = sexp_cdr(ls)) k++; return sexp_make_fixnum(k); }
void h_apply1_grow(void) {
  struct verif_vm S; vm_init(&S);
  mk_proc(&callee_obj, &callee_bc, 1, 0);
  mk_proc(&caller_obj, &caller_bc, J0, 0);
  mk_proc(&outer_obj, &caller_bc, 0, 0);
  sexp *st = S.stack;
  long fp0 = VM_BASE + J0;
  in_prevfp = nondet_long(); __CPROVER_assume(in_prevfp >= 0 && in_prevfp < VM_BASE);
  in_retoff = nondet_long(); __CPROVER_assume(in_retoff >= 8 && in_retoff <= 16);
  for (int k = 0; k < J0; k++) { in_param[k] = vm_any_immediate(); st[fp0 - J0 + k] = in_param[k]; }
  st[fp0] = sexp_make_fixnum(J0); st[fp0 + 1] = sexp_make_fixnum(in_retoff); st[fp0 + 2] = (sexp)&outer_obj; st[fp0 + 3] = sexp_make_fixnum(in_prevfp);
  long top0 = fp0 + 4;
  for (int k = 0; k < NTMP; k++) { in_tmp[k] = vm_any_immediate(); st[top0++] = in_tmp[k]; }
  in_callarg[0] = vm_any_immediate();
  st[top0++] = vm_new_pair(in_callarg[0], SEXP_NULL);     /* _ARG2: the argument list */
  st[top0++] = (sexp)&callee_obj;                          /* _ARG1: the procedure */
  S.fp = fp0; S.top = top0; S.self = (sexp)&caller_obj; S.bc = (sexp)&caller_bc; S.ip = (unsigned char*)caller_bc.data;
  sexp_context_top(S.ctx) = fp0 + 1;                       /* as make_call published it on entry to the running procedure */
  OBL(top0 + 1 + 64 + 4 >= VM_STACK_SLOTS, "apply1_grow.shape: the instance makes the stack grow");
  int ex = verif_op_APPLY1(&S);
  OBL(ex == VERIF_EXIT_MAKE_CALL, "apply1_grow.exit: continues into make_call");
  OBL(S.stack == grown_stack.data && sexp_context_stack(S.ctx) == (sexp)&grown_stack, "apply1_grow.switched: the VM continues on the grown stack");
  OBL(S.fp == in_prevfp && S.self == (sexp)&outer_obj, "apply1_grow.frame_words: the frame words (saved fp, self) survive the growth");
  OBL(S.top == fp0 - J0 + 1 + 1 && S.stack[S.top - 1] == (sexp)&callee_obj && S.stack[fp0 - J0] == in_callarg[0], "apply1_grow.args: the spread argument and the procedure are in place on the new stack");
  REACH();
}
#endif
