/* C05: the code generator propagates the tail flag exactly to tail positions.
 * The static generate_* functions of vm.c with sexp_generate / sexp_emit replaced by recording
 * stubs (their bodies removed, harness/C05/genstubs.c): the stub for sexp_generate logs the flag
 * it sees and then CLOBBERS it (a callee may leave it in any state). */
#include "vm/vm.h"
#include "vm.c"

extern int gen_calls, gen_seen[8]; extern sexp gen_arg[8]; extern int emit_n, emit_op[16];
int in_tail, in_notail;

struct ast3 { struct vm_hdr h; sexp a, b, c, d; };          /* cnd: test pass fail source */
static struct ast3 cnd_obj, e1, e2, e3, op_obj;
static struct { struct vm_hdr h; unsigned long length; sexp data[8]; } specific_obj;
static struct { struct vm_hdr h; sexp name, literals, source; sexp_uint_t length, max_depth; unsigned char data[96]; } bc_obj;   /* compiler state vector of the context */

static void setup(void) {
  vm_ctx_obj.h.tag = SEXP_CONTEXT; verif_register(&vm_ctx_obj);
  vm_globals_obj.h.tag = SEXP_VECTOR; vm_globals_obj.length = SEXP_G_NUM_GLOBALS; verif_register(&vm_globals_obj);
  sexp ctx = (sexp)&vm_ctx_obj;
  sexp_context_globals(ctx) = (sexp)&vm_globals_obj; sexp_context_saves(ctx) = NULL;
  in_tail = nondet_bool(); in_notail = nondet_bool();
  sexp_context_tailp(ctx) = in_tail;
  sexp_global(ctx, SEXP_G_NO_TAIL_CALLS_P) = in_notail ? SEXP_TRUE : SEXP_FALSE;
  specific_obj.h.tag = SEXP_VECTOR; specific_obj.length = 8; verif_register(&specific_obj); sexp_context_specific(ctx) = (sexp)&specific_obj;
  for (int q = 0; q < 8; q++) specific_obj.data[q] = SEXP_FALSE;
  bc_obj.h.tag = SEXP_BYTECODE; bc_obj.length = 96; bc_obj.literals = SEXP_NULL; bc_obj.source = SEXP_NULL; verif_register(&bc_obj); sexp_context_bc(ctx) = (sexp)&bc_obj;
  sexp_context_depth(ctx) = SEXP_ZERO; sexp_context_max_depth(ctx) = SEXP_ZERO; sexp_context_pos(ctx) = SEXP_ZERO;
  /* three distinct non-literal sub-expressions (REF nodes of minimum interest) */
  e1.h.tag = SEXP_REF; e2.h.tag = SEXP_REF; e3.h.tag = SEXP_REF; op_obj.h.tag = SEXP_REF;
  verif_register(&e1); verif_register(&e2); verif_register(&e3); verif_register(&op_obj);
}

void h_generate_cnd(void) {
  setup(); sexp ctx = (sexp)&vm_ctx_obj;
  cnd_obj.h.tag = SEXP_CND; cnd_obj.a = (sexp)&e1; cnd_obj.b = (sexp)&e2; cnd_obj.c = (sexp)&e3; cnd_obj.d = SEXP_FALSE; verif_register(&cnd_obj);
  generate_cnd(ctx, SEXP_FALSE, SEXP_FALSE, SEXP_FALSE, (sexp)&cnd_obj);
  OBL(gen_calls == 3 && gen_arg[0] == (sexp)&e1 && gen_arg[1] == (sexp)&e2 && gen_arg[2] == (sexp)&e3, "generate_cnd.order: test, consequent, alternate are generated in order");
  OBL(gen_seen[0] == 0, "generate_cnd.test_not_tail: the test is never in tail position");
  OBL(gen_seen[1] == in_tail, "generate_cnd.pass_tail: the consequent inherits the tail flag");
  OBL(gen_seen[2] == in_tail, "generate_cnd.fail_tail: the alternate inherits the tail flag whatever the consequent did to it");
  OBL(sexp_context_tailp(ctx) == 0 || sexp_context_tailp(ctx) == in_tail, "generate_cnd.flag_not_raised: on exit the flag is the entry flag or cleared (the contract assumed of sexp_generate)");
  REACH();
}

void h_generate_seq(void) {
  setup(); sexp ctx = (sexp)&vm_ctx_obj;
  sexp ls = vm_new_pair((sexp)&e1, vm_new_pair((sexp)&e2, vm_new_pair((sexp)&e3, SEXP_NULL)));
  generate_seq(ctx, SEXP_FALSE, SEXP_FALSE, SEXP_FALSE, ls);
  OBL(gen_calls == 3 && gen_arg[2] == (sexp)&e3, "generate_seq.order: three forms generated, the last one last");
  OBL(gen_seen[0] == 0 && gen_seen[1] == 0, "generate_seq.body_not_tail: non-final forms are not in tail position");
  OBL(gen_seen[2] == in_tail, "generate_seq.last_tail: the final form inherits the tail flag");
  OBL(sexp_context_tailp(ctx) == 0 || sexp_context_tailp(ctx) == in_tail, "generate_seq.flag_not_raised: on exit the flag is the entry flag or cleared (the contract assumed of sexp_generate)");
  REACH();
}

void h_generate_general_app(void) {
  setup(); sexp ctx = (sexp)&vm_ctx_obj;
  sexp app = vm_new_pair((sexp)&op_obj, vm_new_pair((sexp)&e1, vm_new_pair((sexp)&e2, SEXP_NULL)));
  generate_general_app(ctx, app);
  OBL(gen_calls == 3 && gen_arg[2] == (sexp)&op_obj, "generate_general_app.order: arguments then the operator");
  OBL(gen_seen[0] == 0 && gen_seen[1] == 0 && gen_seen[2] == 0, "generate_general_app.operands_not_tail: operands and operator are not in tail position");
  OBL(emit_n >= 1 && emit_op[emit_n - 1] == ((in_tail && !in_notail) ? SEXP_OP_TAIL_CALL : SEXP_OP_CALL),
      "generate_general_app.tail_call: TAIL_CALL is emitted iff the application is in tail position and tail calls are enabled");
  OBL(sexp_context_tailp(ctx) == 0 || sexp_context_tailp(ctx) == in_tail, "generate_general_app.flag_not_raised: on exit the flag is the entry flag or cleared (the contract assumed of sexp_generate)");
  REACH();
}
