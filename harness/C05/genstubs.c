#include "vm/vm.h"
int gen_calls, gen_seen[8]; sexp gen_arg[8]; int emit_n, emit_op[16];
void sexp_generate (sexp ctx, sexp name, sexp loc, sexp lam, sexp x) {
  if (gen_calls < 8) { gen_seen[gen_calls] = sexp_context_tailp(ctx); gen_arg[gen_calls] = x; }
  gen_calls++;
  /* contract of sexp_generate w.r.t. the flag: it is never raised - on exit it is unchanged or cleared
     (generate_set and generate_opcode_app clear it and do not restore it) */
  if (nondet_bool()) sexp_context_tailp(ctx) = 0;
}
void sexp_emit (sexp ctx, unsigned char c) { if (emit_n < 16) emit_op[emit_n] = c; emit_n++; }
void sexp_expand_bcode (sexp ctx, sexp_sint_t size) { }
sexp sexp_cons_op (sexp ctx, sexp self, sexp_sint_t n, sexp head, sexp tail) { return vm_new_pair(head, tail); }
sexp sexp_length_op (sexp ctx, sexp self, sexp_sint_t n, sexp ls) { long k = 0; for (; sexp_pairp(ls) && k < 6; ls = sexp_cdr(ls)) k++; return sexp_make_fixnum(k); }
sexp sexp_reverse_op (sexp ctx, sexp self, sexp_sint_t n, sexp ls) { sexp r = SEXP_NULL; for (int k = 0; sexp_pairp(ls) && k < 6; ls = sexp_cdr(ls), k++) r = vm_new_pair(sexp_car(ls), r); return r; }
sexp sexp_memq_op (sexp ctx, sexp self, sexp_sint_t n, sexp x, sexp ls) { return SEXP_FALSE; }
