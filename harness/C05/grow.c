/* C05 / C01.3: stack growth.  sexp_grow_stack (static, vm.c) on a small concrete stack: the new
 * length is min(max(2*len, min), MAX); 0 is returned exactly when the stack is already at
 * SEXP_MAX_STACK_SIZE; every slot up to the published top (+1) is copied; every context on the
 * parent chain that shared the old stack now shares the new one.  SEXP_MAX_STACK_SIZE is a build
 * knob (features.h #ifndef) set to a small value per instance so that the capped and the refused
 * branch are reachable with small objects. */
#include "vm/vm.h"
#include "vm.c"

#ifndef LEN
#define LEN 8
#endif
#ifndef MINSZ
#define MINSZ 0
#endif
#define NEWLEN ((2 * LEN > MINSZ ? 2 * LEN : MINSZ) > SEXP_MAX_STACK_SIZE ? SEXP_MAX_STACK_SIZE : (2 * LEN > MINSZ ? 2 * LEN : MINSZ))
struct stk_old { struct vm_hdr h; unsigned long length, top; sexp data[LEN]; };
struct stk_new { struct vm_hdr h; unsigned long length, top; sexp data[NEWLEN]; };
static struct stk_old old_stack; static struct stk_new new_stack;
static struct vm_ctx_t parent_ctx, other_ctx;
static struct stk_old unrelated_stack;
long in_top; sexp in_slot[LEN];
int alloc_calls; size_t alloc_size;

sexp sexp_alloc_tagged_aux(sexp ctx, size_t size, sexp_uint_t tag) {          /* alloc_plain, one object of the instance's size */
  alloc_calls++; alloc_size = size;
  __CPROVER_assert(size == sexp_sizeof(stack) + sizeof(sexp) * NEWLEN, "grow_stack.alloc_size: the new stack has min(max(2*len, min), MAX) slots");
  new_stack.h.tag = tag; verif_register(&new_stack);
  return (sexp)&new_stack;
}

void h_grow_stack(void) {
  vm_ctx_obj.h.tag = SEXP_CONTEXT; parent_ctx.h.tag = SEXP_CONTEXT; other_ctx.h.tag = SEXP_CONTEXT;
  verif_register(&vm_ctx_obj); verif_register(&parent_ctx); verif_register(&other_ctx);
  old_stack.h.tag = SEXP_STACK; old_stack.length = LEN; verif_register(&old_stack);
  unrelated_stack.h.tag = SEXP_STACK; unrelated_stack.length = LEN; verif_register(&unrelated_stack);
  sexp ctx = (sexp)&vm_ctx_obj;
  /* chain: ctx -> parent (shares the stack) -> other (own stack) */
  vm_ctx_obj.stack = (sexp)&old_stack; vm_ctx_obj.parent = (sexp)&parent_ctx;
  parent_ctx.stack = (sexp)&old_stack; parent_ctx.parent = (sexp)&other_ctx;
  other_ctx.stack = (sexp)&unrelated_stack; other_ctx.parent = NULL;
  in_top = nondet_long(); __CPROVER_assume(in_top >= 0 && in_top + 1 < LEN);        /* the invariant sexp_ensure_stack maintains: top + 1 < length */
  sexp_context_top(ctx) = in_top;
  for (int k = 0; k < LEN; k++) { in_slot[k] = vm_any_immediate(); old_stack.data[k] = in_slot[k]; }
  int r = sexp_grow_stack(ctx, MINSZ);
#if LEN >= SEXP_MAX_STACK_SIZE
  OBL(r == 0 && alloc_calls == 0, "grow_stack.refused: at the maximum size growth is refused and nothing is allocated");
  OBL(vm_ctx_obj.stack == (sexp)&old_stack, "grow_stack.refused_frame: the context keeps its stack");
#else
  OBL(r == 1 && alloc_calls == 1, "grow_stack.grown: below the maximum the stack grows");
  OBL(new_stack.length == NEWLEN, "grow_stack.length: new length recorded");
  long g = nondet_long(); __CPROVER_assume(g >= 0 && g <= in_top + 1);          /* ghost index */
  OBL(new_stack.data[g] == in_slot[g], "grow_stack.copied: every slot up to top+1 is copied");
  OBL(vm_ctx_obj.stack == (sexp)&new_stack && parent_ctx.stack == (sexp)&new_stack, "grow_stack.sharers: every context on the parent chain that shared the old stack shares the new one");
  OBL(other_ctx.stack == (sexp)&unrelated_stack, "grow_stack.others: a context with its own stack is untouched");
#endif
  for (int k = 0; k < LEN; k++) OBL(old_stack.data[k] == in_slot[k], "grow_stack.frame: the old stack is not written");
  REACH();
}
