/* C01 (errors contained): list->uvector and make-uvector take the element type as a number from Scheme code and index the static
 * tables sexp_uvector_chars / sexp_uvector_sizes with it.  For EVERY fixnum type code the table accesses stay in bounds (the
 * function raises instead).  Every callee returns an arbitrary value (havoc_keep): only the table accesses inside the two
 * functions are decided here; their other dereferences depend on the callees' results and are ignored in this group. */
#include "common.h"
#include "sexp.c"
static struct sexp_struct ctx_dummy;
static struct { unsigned int tag; char markedp; unsigned char flags; unsigned short pad0; sexp car, cdr, source; } p1;
long in_et, in_len;
void h_list_to_uvector(void) {
  in_et = nondet_long(); __CPROVER_assume(in_et >= SEXP_MIN_FIXNUM && in_et <= SEXP_MAX_FIXNUM);
  p1.tag = SEXP_PAIR; p1.car = SEXP_ONE; p1.cdr = SEXP_NULL;
  ctx_dummy.tag = SEXP_CONTEXT;
  sexp r = sexp_list_to_uvector_op(&ctx_dummy, NULL, 2, sexp_make_fixnum(in_et), (sexp)&p1);
  (void)r;
  REACH();
}
void h_make_uvector(void) {
  in_et = nondet_long(); in_len = nondet_long();
  __CPROVER_assume(in_et >= SEXP_MIN_FIXNUM && in_et <= SEXP_MAX_FIXNUM && in_len >= SEXP_MIN_FIXNUM && in_len <= SEXP_MAX_FIXNUM);
  ctx_dummy.tag = SEXP_CONTEXT;
  sexp r = sexp_make_uvector_op(&ctx_dummy, NULL, 2, sexp_make_fixnum(in_et), sexp_make_fixnum(in_len));
  (void)r;
  REACH();
}
