/* C01: the recursion of sexp_write_one (sexp.c) is bounded by its depth argument.
 * A per-run copy of sexp.c is made (groups/C01.py:extract_writeone, must-fire rules) in
 * which, inside the body of sexp_write_one ONLY, every self-call `sexp_write_one(` is
 * redirected to VF_REC( and every re-entry through `sexp_write(` (which restarts at depth
 * 0) to VF_WRITE( ; nothing else is changed.  The callee contracts asserted there are
 * the decreases clause of the recursion:
 *   write_one.decreases   a nested datum is written at a depth strictly greater than the caller's
 *   write_one.bounded     no nested write at or beyond SEXP_DEFAULT_WRITE_BOUND
 *   write_one.reenter_leaf  a re-entry that resets the depth is made only for an immediate
 * Together with the guard `bound >= SEXP_DEFAULT_WRITE_BOUND` these bound the C recursion
 * depth for every datum, however deeply nested.  One instance per container kind. */
#include "common.h"
static int n_rec, n_reenter, n_out;
static sexp vf_rec(sexp x, sexp_sint_t b, sexp_sint_t caller) {
  n_rec++;
  OBL(b > caller, "write_one.decreases: a nested datum is written at a strictly greater depth");
  OBL(caller < SEXP_DEFAULT_WRITE_BOUND, "write_one.bounded: no nested write at or beyond the depth bound");
  return SEXP_VOID;
}
static sexp vf_reenter(sexp x, sexp_sint_t caller) {
  n_reenter++;
  OBL(!sexp_pointerp(x), "write_one.reenter_leaf: the depth is reset only for an immediate");
  return SEXP_VOID;
}
#undef sexp_write_char
#define sexp_write_char(ctx, ch, out) (n_out++, 0)
#undef sexp_write_string
#define sexp_write_string(ctx, s, out) (n_out++, 0)
#define VF_REC(ctx, x, out, b) vf_rec(x, b, bound)
#define VF_WRITE(ctx, x, out) vf_reenter(x, bound)
#include "sexp_writeone.c"

static sexp any_leaf(void) {            /* an immediate, or a minimum-size object of any tag */
  if (nondet_bool()) { sexp v = (sexp)nondet_ulong(); ASSUME(!sexp_pointerp(v) && v != NULL); return v; }
  unsigned t = nondet_uint(); ASSUME(t >= 1 && t < 64 && t != SEXP_PAIR); return vf_min_obj(t);   /* a pair is a container, not a leaf: built explicitly */
}
long in_bound;
void h_write_depth(void) {
  in_bound = nondet_long(); ASSUME(in_bound >= 0 && in_bound <= SEXP_DEFAULT_WRITE_BOUND + 2);
  sexp ctx = NULL, obj;
#if KIND == 1      /* proper / improper list of two pairs */
  obj = vf_pair(any_leaf(), vf_pair(any_leaf(), any_leaf()));
#elif KIND == 2    /* vector of three */
  obj = vf_vector(3); for (int k = 0; k < 3; k++) sexp_vector_data(obj)[k] = any_leaf();
#elif KIND == 3    /* syntactic closure */
  obj = vf_obj(sexp_sizeof(synclo), SEXP_SYNCLO);
  sexp_synclo_env(obj) = any_leaf(); sexp_synclo_free_vars(obj) = any_leaf(); sexp_synclo_expr(obj) = any_leaf(); sexp_synclo_rename(obj) = any_leaf();
#elif KIND == 4    /* procedure */
  sexp bc = vf_obj(sexp_sizeof(bytecode), SEXP_BYTECODE);
  sexp nm = nondet_bool() ? any_leaf() : vf_obj(sexp_sizeof(synclo), SEXP_SYNCLO);
  if (sexp_pointerp(nm) && sexp_pointer_tag(nm) == SEXP_SYNCLO) { ASSUME(__CPROVER_OBJECT_SIZE(nm) >= sexp_sizeof(synclo)); sexp_synclo_expr(nm) = any_leaf(); }
  sexp_bytecode_name(bc) = nm;
  obj = vf_obj(sexp_sizeof(procedure), SEXP_PROCEDURE);
  sexp_procedure_code(obj) = bc; sexp_procedure_vars(obj) = any_leaf();
  sexp_procedure_flags(obj) = nondet_uchar(); sexp_procedure_num_args(obj) = nondet_uchar();
#endif
  sexp r = sexp_write_one(ctx, obj, NULL, in_bound);
  if (in_bound >= SEXP_DEFAULT_WRITE_BOUND)
    OBL(n_rec == 0 && n_reenter == 0, "write_one.cutoff: at the depth bound nothing nested is written");
  else {
    OBL(n_rec >= 1, "write_one.descends: below the bound the components are written");
    __CPROVER_assert(0, "REACH: container written below the bound");
  }
  REACH();
}
