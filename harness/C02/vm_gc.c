/* C02, VM side: an opcode that allocates must have published its stack top first, so that its
 * operands (live only on the stack) are roots when the allocation triggers a collection.
 * Extracted `case SEXP_OP_CONS` with the adversarial collector in sexp_cons (harness/vm/vm.h). */
#include "vm/vm.h"
#include "vm_ops.c"
static sexp code_words[4];
sexp in_x, in_y; long in_published;

void h_cons_gc(void) {
  struct verif_vm S;
  vm_ctx_obj.h.tag = SEXP_CONTEXT; verif_register(&vm_ctx_obj);
  vm_stack_obj.h.tag = SEXP_STACK; vm_stack_obj.length = VM_STACK_SLOTS; verif_register(&vm_stack_obj);
  vm_globals_obj.h.tag = SEXP_VECTOR; vm_globals_obj.length = SEXP_G_NUM_GLOBALS; verif_register(&vm_globals_obj);
  sexp ctx = (sexp)&vm_ctx_obj;
  sexp_context_stack(ctx) = (sexp)&vm_stack_obj; sexp_context_globals(ctx) = (sexp)&vm_globals_obj; sexp_context_saves(ctx) = NULL;
  S.ctx = ctx; S.root_thread = ctx; S.fuel = 100; S.stack = vm_stack_obj.data;
  S.bc = SEXP_FALSE; S.cp = SEXP_FALSE; S.tmp = SEXP_VOID; S.self = SEXP_FALSE; S.tmp1 = SEXP_VOID; S.tmp2 = SEXP_VOID; S.i = S.j = S.k = 0;
  S.fp = VM_BASE; S.top = VM_BASE + 4 + 2;
  /* two heap operands that are referenced from the stack only */
  sexp xa = vm_any_immediate(), ya = vm_any_immediate();
  in_x = vm_new_pair(xa, SEXP_NULL); in_y = vm_new_pair(ya, SEXP_NULL);
  S.stack[S.top - 1] = in_x; S.stack[S.top - 2] = in_y;
  /* whatever an earlier instruction published: anything up to the frame header is realistic */
  in_published = nondet_long(); __CPROVER_assume(in_published >= 0 && in_published <= VM_BASE + 4);
  sexp_context_top(ctx) = in_published;
  S.ip = (unsigned char*)code_words;
  int ex = verif_op_CONS(&S);
  OBL(ex == VERIF_EXIT_NEXT && S.top == VM_BASE + 4 + 1, "cons.effect: two operands replaced by the new pair");
  sexp r = S.stack[S.top - 1];
  OBL(sexp_pairp(r) && sexp_car(r) == in_x && sexp_cdr(r) == in_y, "cons.value: the pair holds the two operands");
  OBL(vm_collections == 1, "cons.collected: the allocation ran the collector");
  OBL(sexp_pointer_tag(in_x) == SEXP_PAIR && sexp_car(in_x) == xa && sexp_pointer_tag(in_y) == SEXP_PAIR && sexp_car(in_y) == ya,
      "gc.operands_live: the operands survived the collection at the allocation (the opcode published its top first)");
  REACH();
}
