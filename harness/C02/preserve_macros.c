/* C02: the root-registration macros of sexp.h.  sexp_gc_preserveN(ctx, v1..vN) must put each of its N variables on the
 * context's save chain exactly once, in front of the previous chain, and sexp_gc_releaseN must restore the previous chain.
 * Loop-free for each N (the chain walk is bounded by N+1): proved. */
#include "common.h"
struct cx_t { unsigned int tag; char markedp; unsigned char flags; unsigned short pad0;
  sexp stack, env, parent, child, globals, dk, params, proc, name, specific, event, result, dl;
  sexp_heap heap; struct sexp_mark_stack_ptr_t mark_stack[SEXP_MARK_STACK_COUNT]; struct sexp_mark_stack_ptr_t *mark_stack_ptr;
  struct sexp_gc_var_t *saves; };
_Static_assert(offsetof(struct cx_t, saves) == offsetof(struct sexp_struct, value.context.saves), "context layout (saves)");
static struct cx_t cx; static struct sexp_gc_var_t outer; static sexp outer_var;
static int count(sexp *v) { int n = 0; struct sexp_gc_var_t *s = cx.saves; for (int d = 0; d < 9 && s != &outer && s != NULL; d++, s = s->next) if (s->var == v) n++; return n; }
static int chain_len(void) { int n = 0; struct sexp_gc_var_t *s = cx.saves; for (int d = 0; d < 9 && s != &outer && s != NULL; d++, s = s->next) n++; return (s == &outer) ? n : -1; }
#define CHECK(N, ...) do { sexp *vs[] = { __VA_ARGS__ }; \
  OBL(chain_len() == N, "preserve.length: exactly N entries in front of the previous chain"); \
  for (int k = 0; k < N; k++) OBL(count(vs[k]) == 1, "preserve.each_once: every variable of sexp_gc_preserveN is registered exactly once"); } while (0)
void h_preserve_macros(void) {
  sexp ctx = (sexp)&cx; cx.tag = SEXP_CONTEXT; outer.var = &outer_var; outer.next = NULL; cx.saves = &outer;
  { sexp_gc_var1(a); sexp_gc_preserve1(ctx, a); CHECK(1, &a); sexp_gc_release1(ctx); OBL(cx.saves == &outer, "release.restores: 1"); }
  { sexp_gc_var2(a, b); sexp_gc_preserve2(ctx, a, b); CHECK(2, &a, &b); sexp_gc_release2(ctx); OBL(cx.saves == &outer, "release.restores: 2"); }
  { sexp_gc_var3(a, b, c); sexp_gc_preserve3(ctx, a, b, c); CHECK(3, &a, &b, &c); sexp_gc_release3(ctx); OBL(cx.saves == &outer, "release.restores: 3"); }
  { sexp_gc_var4(a, b, c, d); sexp_gc_preserve4(ctx, a, b, c, d); CHECK(4, &a, &b, &c, &d); sexp_gc_release4(ctx); OBL(cx.saves == &outer, "release.restores: 4"); }
  { sexp_gc_var5(a, b, c, d, e); sexp_gc_preserve5(ctx, a, b, c, d, e); CHECK(5, &a, &b, &c, &d, &e); sexp_gc_release5(ctx); OBL(cx.saves == &outer, "release.restores: 5"); }
  { sexp_gc_var6(a, b, c, d, e, f); sexp_gc_preserve6(ctx, a, b, c, d, e, f); CHECK(6, &a, &b, &c, &d, &e, &f); sexp_gc_release6(ctx); OBL(cx.saves == &outer, "release.restores: 6"); }
  { sexp_gc_var7(a, b, c, d, e, f, g); sexp_gc_preserve7(ctx, a, b, c, d, e, f, g); CHECK(7, &a, &b, &c, &d, &e, &f, &g); sexp_gc_release7(ctx); OBL(cx.saves == &outer, "release.restores: 7"); }
  REACH();
}
