/* C02: every allocating function of bignum.c keeps every object it still uses reachable from a
 * registered root across each of its allocation points.  alloc_gc (harness/bn.h, -DVERIF_GC): a
 * collection at EVERY allocation reclaims and havocs every pool object that is not held by a
 * variable on ctx->saves or caller-rooted.  Obligations: the function stays memory safe and
 * functionally correct (shared with C04), the result is live, ctx->saves is restored. */
#include "bn.h"
#include "bignum.c"

unsigned long in_a[8], in_b[8], in_w; long in_f; int in_sa, in_sb;
#define CAT2(a,b) a##b
#define CAT(a,b) CAT2(a,b)
static struct bn_ctx_t ctx_obj;
#define SETUP_CTX() sexp ctx = (sexp)&ctx_obj; ctx_obj.tag = SEXP_CONTEXT; ctx_obj.saves = NULL; verif_register(ctx)
#define SETUP_A() \
  static struct CAT(bn_,LA) a_obj; sexp a = (sexp)&a_obj; in_sa = nondet_bool() ? 1 : -1; \
  a_obj.tag = SEXP_BIGNUM; a_obj.length = LA; a_obj.sign = in_sa; \
  for (int i = 0; i < HA; i++) { in_a[i] = nondet_ulong(); a_obj.data[i] = in_a[i]; } \
  if (HA > 1) ASSUME(in_a[HA-1] != 0); bn_known(a, HA); bn_root(a)
#define SETUP_B() \
  static struct CAT(bn_,LB) b_obj; sexp b = (sexp)&b_obj; in_sb = nondet_bool() ? 1 : -1; \
  b_obj.tag = SEXP_BIGNUM; b_obj.length = LB; b_obj.sign = in_sb; \
  for (int i = 0; i < HB; i++) { in_b[i] = nondet_ulong(); b_obj.data[i] = in_b[i]; } \
  if (HB > 1) ASSUME(in_b[HB-1] != 0); bn_known(b, HB); bn_root(b)
#define IS_BIG(c) (sexp_pointerp(c) && sexp_pointer_tag(c) == SEXP_BIGNUM)
#define GC_DONE(r) OBL(!bn_is_dead(r), "gc.result_live: the returned object was not reclaimed"); \
  OBL(ctx_obj.saves == NULL, "gc.release: the preserve chain is restored on return"); \
  OBL(!bn_pool_exhausted, "alloc.bound: allocation pool sufficed"); REACH()

static uwide spec_mul_word(sexp a, unsigned long w) {
  uwide r = 0;
  for (unsigned long k = 0; k < sexp_bignum_length(a) && k < 8; k++)
    r += (uwide)luint_mul_uint(luint_from_uint(sexp_bignum_data(a)[k]), w) << (64 * k);
  return r;
}

void h_fxmul(void) {                          /* d == NULL: allocates the result, then possibly a longer copy */
  SETUP_CTX(); SETUP_A();
  in_w = nondet_ulong();
  uwide want = spec_mul_word(a, in_w);
  sexp c = sexp_bignum_fxmul(ctx, NULL, a, in_w, 0);
  OBL(IS_BIG(c) && bn_mag(c) == want, "fxmul.value_under_gc: |c| == |a| * w with a collection at every allocation");
  GC_DONE(c);
}

void h_add_fixnum(void) {
  SETUP_CTX(); SETUP_A();
  in_f = nondet_long(); ASSUME(in_f >= SEXP_MIN_FIXNUM && in_f <= SEXP_MAX_FIXNUM);
  swide va = bn_val(a);
  sexp c = sexp_bignum_add_fixnum(ctx, a, sexp_make_fixnum(in_f));
  OBL(IS_BIG(c) && bn_val(c) == va + (swide)in_f, "add_fixnum.value_under_gc: V(c) == V(a) + f");
  GC_DONE(c);
}

void h_add_digits(void) {
  SETUP_CTX(); SETUP_A(); SETUP_B();
  uwide ma = bn_mag(a), mb = bn_mag(b);
  sexp c = sexp_bignum_add_digits(ctx, NULL, a, b);
  OBL(IS_BIG(c) && bn_mag(c) == ma + mb, "add_digits.value_under_gc: |c| == |a| + |b|");
  GC_DONE(c);
}

void h_sub_digits(void) {
  SETUP_CTX(); SETUP_A(); SETUP_B();
  uwide ma = bn_mag(a), mb = bn_mag(b);
  sexp c = sexp_bignum_sub_digits(ctx, NULL, a, b);
  OBL(IS_BIG(c) && bn_mag(c) == (ma >= mb ? ma - mb : mb - ma), "sub_digits.value_under_gc: |c| == ||a| - |b||");
  GC_DONE(c);
}
