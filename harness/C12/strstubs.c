#include "C12/strobjs.h"
sexp sexp_alloc_tagged_aux(sexp ctx, size_t size, sexp_uint_t tag) {        /* alloc_plain for the objects these functions make */
  alloc_calls++;
  if (tag == SEXP_STRING) { __CPROVER_assert(size == sexp_sizeof(string), "alloc.string_size"); made_str.h.tag = tag; verif_register(&made_str); return (sexp)&made_str; }
  __CPROVER_assert(0, "alloc.unexpected: only string headers are allocated through sexp_alloc_tagged");
  return NULL;
}
void *sexp_alloc(sexp ctx, size_t size) {                                  /* the byte store of string-set! (sexp_make_bytes_op) */
  alloc_calls++;
  __CPROVER_assert(size == sizeof(struct newby_t), "alloc.bytes_size: the new byte store has exactly the new size + 1 bytes");
  verif_register(&newbytes_obj); return &newbytes_obj;
}

