/* objects shared by harness/C12/strings.c and its allocator stubs */
#ifndef STROBJS_H
#define STROBJS_H
#include "vm/vm.h"
#ifndef W1
#define W1 1
#endif
#ifndef W2
#define W2 0
#endif
#ifndef W3
#define W3 0
#endif
#ifndef OFF
#define OFF 0
#endif
#ifndef COW
#define COW 0
#endif
#ifndef NW
#define NW 1            /* width of the replacement character for string-set! */
#endif
#ifndef POS
#define POS 0           /* which character is replaced */
#endif
#define NCH ((W1 > 0) + (W2 > 0) + (W3 > 0))
#define SIZE (W1 + W2 + W3)
#define STORE (OFF + SIZE + 1)         /* one unrelated byte after the view, then the NUL */
struct __attribute__((packed)) by_t { struct vm_hdr h; unsigned long length; char data[STORE + 1]; };      /* packed: exact object size, no tail padding */
#define WSUM(k) (((k) >= 1 ? W1 : 0) + ((k) >= 2 ? W2 : 0) + ((k) >= 3 ? W3 : 0))      /* bytes of the first k characters */
#ifdef SUB_S       /* substring instance: characters SUB_S .. SUB_E-1 */
#define NEWSIZE (WSUM(SUB_E) - WSUM(SUB_S))
#elif defined(SW)  /* concatenation instance: two copies of the string joined by a separator of SW bytes */
#define NEWSIZE (2 * SIZE + SW)
#else
#define NEWSIZE (SIZE - (POS == 0 ? W1 : POS == 1 ? W2 : W3) + NW)
#endif
struct __attribute__((packed)) newby_t { struct vm_hdr h; unsigned long length; char data[NEWSIZE + 1]; };
struct __attribute__((packed)) sepby_t { struct vm_hdr h; unsigned long length; char data[4 + 1]; };
struct st_t { struct vm_hdr h; sexp bytes; unsigned long offset, length; };
struct by_t bytes_obj; struct newby_t newbytes_obj; struct sepby_t sep_bytes; struct st_t str_obj, other_str, made_str, sep_str;   /* shared with the stub TU */
int in_cp[3], in_new;
int alloc_calls;

#endif
