/* C12: strings are sequences of scalar values whatever the byte encoding.
 * Abstract view cp(s): the code points obtained by an independent decoder over the string's
 * bytes.  Strings of up to 3 characters whose UTF-8 widths (W1,W2,W3; 0 = absent) are constants of
 * the instance; the scalar values themselves are symbolic.  OFF = offset of the string inside its
 * byte store (sub-string views), COW = copy-on-write (literal) flag. */
#include "vm/vm.h"
#include "eval.c"
#include "sexp.c"
#include "lib/chibi/io/port.c"

#include "C12/strobjs.h"
static int wd(int k) { return k == 0 ? W1 : k == 1 ? W2 : W3; }
static int width_of(int c) { return c < 0x80 ? 1 : c < 0x800 ? 2 : c < 0x10000 ? 3 : 4; }
static void spec_encode(unsigned char *p, int c) {          /* RFC 3629, harness side */
  if (c < 0x80) { p[0] = c; }
  else if (c < 0x800) { p[0] = 0xC0 | (c >> 6); p[1] = 0x80 | (c & 0x3F); }
  else if (c < 0x10000) { p[0] = 0xE0 | (c >> 12); p[1] = 0x80 | ((c >> 6) & 0x3F); p[2] = 0x80 | (c & 0x3F); }
  else { p[0] = 0xF0 | (c >> 18); p[1] = 0x80 | ((c >> 12) & 0x3F); p[2] = 0x80 | ((c >> 6) & 0x3F); p[3] = 0x80 | (c & 0x3F); }
}
static int spec_decode(const unsigned char *p, int *w) {    /* strict decoder: -1 if ill-formed */
  if (p[0] < 0x80) { *w = 1; return p[0]; }
  if (p[0] >= 0xC2 && p[0] <= 0xDF) { *w = 2; if ((p[1] & 0xC0) != 0x80) return -1; return ((p[0] & 0x1F) << 6) | (p[1] & 0x3F); }
  if ((p[0] & 0xF0) == 0xE0) { *w = 3; if ((p[1] & 0xC0) != 0x80 || (p[2] & 0xC0) != 0x80) return -1; int c = ((p[0] & 0x0F) << 12) | ((p[1] & 0x3F) << 6) | (p[2] & 0x3F); return (c < 0x800 || (c >= 0xD800 && c <= 0xDFFF)) ? -1 : c; }
  if ((p[0] & 0xF8) == 0xF0) { *w = 4; if ((p[1] & 0xC0) != 0x80 || (p[2] & 0xC0) != 0x80 || (p[3] & 0xC0) != 0x80) return -1; int c = ((p[0] & 0x07) << 18) | ((p[1] & 0x3F) << 12) | ((p[2] & 0x3F) << 6) | (p[3] & 0x3F); return (c < 0x10000 || c > 0x10FFFF) ? -1 : c; }
  *w = 1; return -1;
}
static int any_scalar_of_width(int w) {
  int c = nondet_int();
  __CPROVER_assume(c >= 0 && c <= 0x10FFFF && !(c >= 0xD800 && c <= 0xDFFF) && width_of(c) == w);
  return c;
}

static sexp setup(void) {
  vm_ctx_obj.h.tag = SEXP_CONTEXT; verif_register(&vm_ctx_obj);
  sexp ctx = (sexp)&vm_ctx_obj; sexp_context_saves(ctx) = NULL;
  bytes_obj.h.tag = SEXP_BYTES; bytes_obj.length = STORE; verif_register(&bytes_obj);
  for (int k = 0; k < OFF; k++) bytes_obj.data[k] = 'x';
  int pos = OFF;
  for (int k = 0; k < NCH; k++) { in_cp[k] = any_scalar_of_width(wd(k)); spec_encode((unsigned char*)bytes_obj.data + pos, in_cp[k]); pos += wd(k); }
  bytes_obj.data[pos] = 'y'; bytes_obj.data[pos + 1] = 0;
  str_obj.h.tag = SEXP_STRING; str_obj.bytes = (sexp)&bytes_obj; str_obj.offset = OFF; str_obj.length = SIZE; str_obj.h.flags = COW ? 16 : 0; verif_register(&str_obj);
  /* another string sharing the same byte store (a literal's copy, a sub-string view) */
  other_str.h.tag = SEXP_STRING; other_str.bytes = (sexp)&bytes_obj; other_str.offset = OFF; other_str.length = SIZE; verif_register(&other_str);
  return ctx;
}
static long off_of(int k) { long o = 0; for (int j = 0; j < k; j++) o += wd(j); return o; }

/* view of an arbitrary string object as code points; -1 if ill-formed or out of its byte store */
static int view_ok(sexp s, int n, const int *want) {
  if (!sexp_stringp(s)) return 0;
  sexp b = sexp_string_bytes(s);
  if (!sexp_bytesp(b)) return 0;
  unsigned long off = sexp_string_offset(s), sz = sexp_string_size(s);
  if (off + sz > sexp_bytes_length(b)) return 0;
  const unsigned char *p = (const unsigned char*)sexp_bytes_data(b) + off; unsigned long used = 0;
  for (int k = 0; k < n; k++) { int w; if (used >= sz) return 0; int c = spec_decode(p + used, &w); if (c != want[k]) return 0; used += w; }
  return used == sz;
}

void h_length_cursor(void) {
  sexp ctx = setup(); sexp s = (sexp)&str_obj;
  OBL(sexp_string_utf8_length((unsigned char*)sexp_string_data(s), sexp_string_size(s)) == NCH, "string_length.count: string-length is the number of characters");
  long i = nondet_long(); __CPROVER_assume(i >= SEXP_MIN_FIXNUM && i <= SEXP_MAX_FIXNUM);
  sexp cur = sexp_string_index_to_cursor(ctx, SEXP_FALSE, 2, s, sexp_make_fixnum(i));
  if (i >= 0 && i <= NCH) {
    OBL(sexp_string_cursorp(cur) && sexp_unbox_string_cursor(cur) == off_of((int)i), "index_to_cursor.offset: the cursor of index i is the byte offset of the i-th character");
    sexp back = sexp_string_cursor_to_index(ctx, SEXP_FALSE, 2, s, cur);
    OBL(back == sexp_make_fixnum(i), "cursor_to_index.inverse: cursor->index inverts index->cursor");
    if (i < NCH) {
      sexp ch = sexp_string_utf8_ref(ctx, s, cur);
      OBL(sexp_charp(ch) && sexp_unbox_character(ch) == in_cp[i], "string_ref.value: string-ref yields the i-th code point");
    }
  } else {
    OBL(sexp_exceptionp(cur), "index_to_cursor.range: an index outside [0, length] raises");
  }
  REACH();
}

void h_string_set(void) {
  sexp ctx = setup(); sexp s = (sexp)&str_obj;
  in_new = any_scalar_of_width(NW);
  int want[3]; for (int k = 0; k < NCH; k++) want[k] = (k == POS) ? in_new : in_cp[k];
  sexp_string_utf8_set(ctx, s, sexp_make_string_cursor(off_of(POS)), sexp_make_character(in_new));
  OBL(view_ok(s, NCH, want), "string_set.model: cp(s') == cp(s)[i := c], well-formed, inside its byte store");
  OBL(sexp_string_size(s) == SIZE - wd(POS) + NW, "string_set.size: the byte size changes by the width difference");
  OBL(view_ok((sexp)&other_str, NCH, in_cp) || !(COW || wd(POS) != NW), "string_set.sharing: a string sharing the old byte store is unchanged when the store had to be replaced");
  OBL(!sexp_copy_on_writep(s), "string_set.cow_cleared: the string owns its bytes afterwards");
  OBL(alloc_calls == ((COW || wd(POS) != NW) ? 1 : 0), "string_set.alloc: a new byte store is made exactly when the width changes or the string is copy-on-write");
  REACH();
}

/* utf8->string! (port.c): a view [start, end) of a bytevector */
void h_utf8_to_string(void) {
  sexp ctx = setup();
  long st = nondet_long(), en = nondet_long();
  __CPROVER_assume(st >= SEXP_MIN_FIXNUM && st <= SEXP_MAX_FIXNUM && en >= SEXP_MIN_FIXNUM && en <= SEXP_MAX_FIXNUM);
  sexp r = sexp_utf8_to_string_x(ctx, SEXP_FALSE, (sexp)&bytes_obj, sexp_make_fixnum(st), sexp_make_fixnum(en));
  OBL(sexp_stringp(r) || sexp_exceptionp(r), "utf8_to_string.result: a string or an exception");
  if (sexp_stringp(r)) {
    OBL(st >= 0 && st <= en && en <= STORE, "utf8_to_string.range: a string is returned only for 0 <= start <= end <= bytevector-length");
    OBL(sexp_string_offset(r) + sexp_string_size(r) <= sexp_bytes_length(sexp_string_bytes(r)), "utf8_to_string.view_in_bounds: the string view lies inside its byte store");
    OBL(sexp_string_offset(r) == (unsigned long)st && sexp_string_size(r) == (unsigned long)(en - st), "utf8_to_string.view: the view is [start, end)");
  }
  REACH();
}

/* string-append / string-join: (s, t) joined by a one-character separator of SW bytes */
#ifdef SW
void h_concatenate(void) {
  sexp ctx = setup();
  int sepc = any_scalar_of_width(SW);
  sep_bytes.h.tag = SEXP_BYTES; sep_bytes.length = SW; spec_encode((unsigned char*)sep_bytes.data, sepc); sep_bytes.data[SW] = 0; verif_register(&sep_bytes);
  sep_str.h.tag = SEXP_STRING; sep_str.bytes = (sexp)&sep_bytes; sep_str.offset = 0; sep_str.length = SW; verif_register(&sep_str);
  sexp ls = vm_new_pair((sexp)&str_obj, vm_new_pair((sexp)&other_str, SEXP_NULL));
  sexp r = sexp_string_concatenate_op(ctx, SEXP_FALSE, 2, ls, (sexp)&sep_str);
  int want[7], n = 0;
  for (int k = 0; k < NCH; k++) want[n++] = in_cp[k];
  want[n++] = sepc;
  for (int k = 0; k < NCH; k++) want[n++] = in_cp[k];
  OBL(view_ok(r, n, want), "concatenate.model: cp(result) == cp(s) ++ cp(sep) ++ cp(t), well-formed, inside its byte store");
  OBL(sexp_stringp(r) && sexp_string_size(r) == 2 * SIZE + SW, "concatenate.size: byte size is the sum of the parts");
  OBL(sexp_stringp(r) && ((char*)sexp_string_data(r))[2 * SIZE + SW] == 0, "concatenate.nul: the bytes handed to C are NUL-terminated");
  OBL(view_ok((sexp)&str_obj, NCH, in_cp), "concatenate.frame: the arguments are unchanged");
  REACH();
}
#endif

/* substring by cursors and by indices: characters SUB_S .. SUB_E-1 of the string (constants of the instance, so that the new
 * byte store has an exact size); and rejection of every cursor pair outside 0 <= start <= end <= size (symbolic) */
#ifdef SUB_S
void h_substring(void) {
  sexp ctx = setup();
#ifdef BY_INDEX
  sexp r = sexp_utf8_substring_op(ctx, SEXP_FALSE, 3, (sexp)&str_obj, sexp_make_fixnum(SUB_S), sexp_make_fixnum(SUB_E));
#else
  sexp r = sexp_substring_op(ctx, SEXP_FALSE, 3, (sexp)&str_obj, sexp_make_string_cursor(WSUM(SUB_S)), sexp_make_string_cursor(WSUM(SUB_E)));
#endif
  OBL(view_ok(r, SUB_E - SUB_S, in_cp + SUB_S), "substring.model: cp(result) == cp(s)[start .. end), well-formed, inside its own byte store");
  OBL(sexp_stringp(r) && sexp_string_size(r) == NEWSIZE && ((char*)sexp_string_data(r))[NEWSIZE] == 0, "substring.size_nul: exact byte size, NUL-terminated");
  OBL(sexp_stringp(r) && sexp_string_bytes(r) != (sexp)&bytes_obj, "substring.fresh: the result does not share the byte store of its argument");
  OBL(view_ok((sexp)&str_obj, NCH, in_cp), "substring.frame: the argument is unchanged");
  REACH();
}
void h_substring_range(void) {
  sexp ctx = setup();
  long st = nondet_long(), en = nondet_long();
  __CPROVER_assume(st >= -4 && st <= SIZE + 4 && en >= -4 && en <= SIZE + 4);
  __CPROVER_assume(!(0 <= st && st <= en && en <= SIZE));
  sexp r = sexp_substring_op(ctx, SEXP_FALSE, 3, (sexp)&str_obj, sexp_make_string_cursor(st), sexp_make_string_cursor(en));
  OBL(sexp_exceptionp(r), "substring.range: cursors outside 0 <= start <= end <= size are rejected");
  OBL(alloc_calls == 0, "substring.range_no_alloc: nothing is allocated (and nothing copied) before the range check");
  REACH();
}
#endif

/* C01 (errors contained): the byte-level UTF-8 primitives of (chibi io) - utf8-ref, utf8-next, utf8-prev, string-count-chars -
 * take offsets from Scheme code.  For EVERY fixnum offset they either stay inside the bytevector / string or raise; CBMC's
 * pointer checks on the dereferences inside port.c are the obligations (plus: the result is a value of the expected kind). */
void h_utf8_prims(void) {
  sexp ctx = setup();
  long o1 = nondet_long(), o2 = nondet_long();
  __CPROVER_assume(o1 >= SEXP_MIN_FIXNUM && o1 <= SEXP_MAX_FIXNUM && o2 >= SEXP_MIN_FIXNUM && o2 <= SEXP_MAX_FIXNUM);
  sexp bv = (sexp)&bytes_obj;
#if PRIM == 0
  sexp r = sexp_utf8_ref(ctx, SEXP_FALSE, bv, sexp_make_fixnum(o1));
  OBL(sexp_charp(r) || sexp_exceptionp(r), "utf8_ref.result: a character or an exception");
  OBL(!sexp_charp(r) || (o1 >= 0 && o1 < STORE), "utf8_ref.range: a character only for an offset inside the bytevector");
#elif PRIM == 1
  sexp r = sexp_utf8_next(ctx, SEXP_FALSE, bv, sexp_make_fixnum(o1), sexp_make_fixnum(o2));
  OBL(sexp_fixnump(r) || r == SEXP_FALSE || sexp_exceptionp(r), "utf8_next.result: an offset, #f or an exception");
  OBL(!sexp_fixnump(r) || (sexp_unbox_fixnum(r) > o1 && sexp_unbox_fixnum(r) <= o2), "utf8_next.progress: the next offset lies in (offset, end]");
#elif PRIM == 2
  sexp r = sexp_utf8_prev(ctx, SEXP_FALSE, bv, sexp_make_fixnum(o1), sexp_make_fixnum(o2));
  OBL(sexp_fixnump(r) || r == SEXP_FALSE || sexp_exceptionp(r), "utf8_prev.result: an offset, #f or an exception");
  OBL(!sexp_fixnump(r) || (sexp_unbox_fixnum(r) < o1 && sexp_unbox_fixnum(r) >= o2), "utf8_prev.progress: the previous offset lies in [start, offset)");
#else
  int c = nondet_int(); __CPROVER_assume(c >= 0 && c <= 0x10FFFF && !(c >= 0xD800 && c <= 0xDFFF));
  sexp r = sexp_string_count(ctx, SEXP_FALSE, sexp_make_character(c), (sexp)&str_obj, sexp_make_fixnum(o1), nondet_bool() ? SEXP_FALSE : sexp_make_fixnum(o2));
  OBL(sexp_fixnump(r) || sexp_exceptionp(r), "string_count.result: a count or an exception");
  OBL(!sexp_fixnump(r) || (sexp_unbox_fixnum(r) >= 0 && sexp_unbox_fixnum(r) <= SIZE), "string_count.bound: at most one occurrence per byte of the string");
#endif
  REACH();
}
