/* C12 codec lemmas (proved, loop-free, all scalar values):
 *   widths agree, bytes are well-formed UTF-8, string_utf8_ref(encode(c)) == c. */
#include "common.h"
#include "sexp.c"

int in_c;

/* independent decoder: RFC 3629 table, strict (no overlongs, no surrogates) */
static int spec_decode(const unsigned char *p, int n, int *cp) {
  if (n == 1) { if (p[0] >= 0x80) return 0; *cp = p[0]; return 1; }
  if (n == 2) { if (p[0] < 0xC2 || p[0] > 0xDF || (p[1] & 0xC0) != 0x80) return 0;
                *cp = ((p[0] & 0x1F) << 6) | (p[1] & 0x3F); return 1; }
  if (n == 3) { if ((p[0] & 0xF0) != 0xE0 || (p[1] & 0xC0) != 0x80 || (p[2] & 0xC0) != 0x80) return 0;
                *cp = ((p[0] & 0x0F) << 12) | ((p[1] & 0x3F) << 6) | (p[2] & 0x3F);
                if (*cp < 0x800 || (*cp >= 0xD800 && *cp <= 0xDFFF)) return 0; return 1; }
  if (n == 4) { if ((p[0] & 0xF8) != 0xF0 || (p[1] & 0xC0) != 0x80 || (p[2] & 0xC0) != 0x80 || (p[3] & 0xC0) != 0x80) return 0;
                *cp = ((p[0] & 0x07) << 18) | ((p[1] & 0x3F) << 12) | ((p[2] & 0x3F) << 6) | (p[3] & 0x3F);
                if (*cp < 0x10000 || *cp > 0x10FFFF) return 0; return 1; }
  return 0;
}

void h_codec(void) {
  in_c = nondet_int();
  ASSUME(in_c >= 0 && in_c <= 0x10FFFF && !(in_c >= 0xD800 && in_c <= 0xDFFF));
  /* one instance per width class W (the classes partition the scalar values);
     object sizes stay concrete (DESIGN 1.3) */
  ASSUME((in_c < 0x80 ? 1 : in_c < 0x800 ? 2 : in_c < 0x10000 ? 3 : 4) == W);
  int len = sexp_utf8_char_byte_count(in_c);
  OBL(len == W, "char_byte_count.class: width class");
  len = W;
  OBL(len == (in_c < 0x80 ? 1 : in_c < 0x800 ? 2 : in_c < 0x10000 ? 3 : 4), "char_byte_count.spec: width is the RFC 3629 width");
  sexp b = vf_bytes(len);
  unsigned char *p = (unsigned char*) sexp_bytes_data(b);
  sexp_utf8_encode_char(p, len, in_c);
  OBL(sexp_utf8_initial_byte_count(p[0]) == len, "widths_agree: initial_byte_count(lead) == char_byte_count(c)");
  int cp = -1;
  OBL(spec_decode(p, len, &cp), "encode.well_formed: bytes are well-formed UTF-8");
  OBL(cp == in_c, "encode.value: strict decoder gives c back");
  OBL(p[len] == 0, "encode.frame: NUL after the character untouched");
  sexp s = vf_string(b, 0, len);
  sexp r = sexp_string_utf8_ref(NULL, s, sexp_make_string_cursor(0));
  OBL(sexp_charp(r) && sexp_unbox_character(r) == in_c, "string_utf8_ref.inverse: ref(encode(c)) == c");
  OBL(sexp_string_utf8_length(p, len) == 1, "utf8_length.one: one character");
  REACH();
}
