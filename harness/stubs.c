/* Contract stubs for callees that are outside the verified set of a group
 * (DESIGN 1.6): "returns a valid exception object, writes nothing the caller
 * can see".  A stub is linked only when the group names the callee in its
 * stub list (the driver removes the real body and passes -DSTUB_<name>). */
#include "common.h"

static sexp stub_exception(void) { return vf_exception(); }

#ifdef STUB_sexp_user_exception
sexp sexp_user_exception (sexp ctx, sexp self, const char *msg, sexp x) { return stub_exception(); }
#endif
#ifdef STUB_sexp_type_exception
sexp sexp_type_exception (sexp ctx, sexp self, sexp_uint_t type_id, sexp x) { return stub_exception(); }
#endif
#ifdef STUB_sexp_xtype_exception
sexp sexp_xtype_exception (sexp ctx, sexp self, const char *msg, sexp x) { return stub_exception(); }
#endif
#ifdef STUB_sexp_range_exception
sexp sexp_range_exception (sexp ctx, sexp obj, sexp start, sexp end) { return stub_exception(); }
#endif
#ifdef STUB_sexp_make_exception
sexp sexp_make_exception (sexp ctx, sexp kind, sexp message, sexp irritants, sexp procedure, sexp source) { return stub_exception(); }
#endif
#ifdef STUB_sexp_file_exception
sexp sexp_file_exception (sexp ctx, sexp self, const char *ms, sexp ir) { return stub_exception(); }
#endif
