/* C11: the SRFI-18 primitives and the scheduler of lib/srfi/18/threads.c against contracts over an abstract view
 * of the scheduler state: run = the sequence of threads in the runnable queue (FRONT list, BACK its last cell),
 * paused = the sequence of threads in the paused list.  Each primitive is one VM instruction, so the property's
 * "under every interleaving" reduces to: every primitive and every scheduler call, started in ANY well-formed
 * state, ends in a well-formed state and moves exactly the threads its contract names (mutual exclusion = a held
 * mutex is never handed to a second locker; no lost wake-up = the event's first waiter leaves `paused`, nobody else
 * does, nobody disappears).  The shape of the two lists is a constant of the instance (PAUSED / RUN digit strings:
 * 0 = the calling thread, 1..3 other threads); awaited events, time-outs, the clock, lock state and flags are symbolic. */
#include "vm/vm.h"
#include <sys/time.h>
long in_now_sec, in_now_usec; int n_sleep;
static int verif_gettimeofday(struct timeval *tv, void *tz) { tv->tv_sec = in_now_sec; tv->tv_usec = in_now_usec; return 0; }
static int verif_usleep(unsigned usec) { n_sleep++; return 0; }
#define gettimeofday(tv, tz) verif_gettimeofday(tv, tz)
#define usleep verif_usleep
#include "lib/srfi/18/threads.c"
#undef gettimeofday
#undef usleep

struct vm_ctx_t th1, th2, th3;                           /* T0 is vm_ctx_obj, the calling thread */
struct rec4 { struct vm_hdr h; sexp slot[4]; };
static struct rec4 mx, cv;
#define T(k) ((k) == 0 ? (sexp)&vm_ctx_obj : (k) == 1 ? (sexp)&th1 : (k) == 2 ? (sexp)&th2 : (sexp)&th3)
#define TS(k) ((k) == 0 ? &vm_ctx_obj : (k) == 1 ? &th1 : (k) == 2 ? &th2 : &th3)
#ifndef PAUSED
#define PAUSED 12        /* decimal digits, most significant first; 9 = empty */
#endif
#ifndef RUN
#define RUN 3
#endif
int in_evt[4], in_locked, in_owner, in_refuel0, in_wait0, in_timed, in_timeout; long in_tv[4], in_tvu[4];
static sexp evt_of(int e) { return e == 0 ? (sexp)&mx : e == 1 ? (sexp)&cv : e == 2 ? SEXP_FALSE : (sexp)&vm_ctx_obj; }

static int digits(int n, int out[3]) { int k = 0, tmp[3]; if (n == 9) return 0; do { tmp[k++] = n % 10; n /= 10; } while (n > 0 && k < 3); for (int j = 0; j < k; j++) out[j] = tmp[k - 1 - j]; return k; }
static sexp pre_paused[4], pre_run[4]; static int n_pre_paused, n_pre_run; static int in_paused0;
static sexp mklist(int n, int ids[3]) { sexp ls = SEXP_NULL; for (int j = n - 1; j >= 0; j--) ls = vm_new_pair(T(ids[j]), ls); return ls; }
static sexp last_pair(sexp ls) { sexp l = SEXP_NULL; for (int d = 0; d < 5 && sexp_pairp(ls); d++, ls = sexp_cdr(ls)) l = ls; return l; }
static int before(struct vm_ctx_t *c, long s, long us) { return (c->tval.tv_sec != 0 || c->tval.tv_usec != 0) && (c->tval.tv_sec < s || (c->tval.tv_sec == s && c->tval.tv_usec < us)); }

static sexp setup(void) {
  sexp ctx = (sexp)&vm_ctx_obj;
  vm_ctx_obj.h.tag = th1.h.tag = th2.h.tag = th3.h.tag = SEXP_CONTEXT;
  verif_register(&vm_ctx_obj); verif_register(&th1); verif_register(&th2); verif_register(&th3);
  vm_globals_obj.h.tag = SEXP_VECTOR; vm_globals_obj.length = SEXP_G_NUM_GLOBALS; verif_register(&vm_globals_obj);
  vm_ctx_obj.globals = th1.globals = th2.globals = th3.globals = (sexp)&vm_globals_obj; vm_ctx_obj.saves = NULL;
  mx.h.tag = 60; cv.h.tag = 61; verif_register(&mx); verif_register(&cv);
  vm_globals_obj.data[SEXP_G_THREADS_MUTEX_ID] = sexp_make_fixnum(60);
  vm_globals_obj.data[SEXP_G_THREADS_SIGNALS] = SEXP_ZERO; vm_globals_obj.data[SEXP_G_THREADS_POLL_FDS] = SEXP_FALSE;
  vm_globals_obj.data[SEXP_G_THREADS_SIGNAL_RUNNER] = SEXP_FALSE;
  in_locked = nondet_bool(); in_owner = nondet_int(); __CPROVER_assume(in_owner >= 0 && in_owner <= 3);
  mx.slot[0] = SEXP_FALSE; mx.slot[1] = SEXP_FALSE; mx.slot[2] = in_locked ? T(in_owner) : SEXP_FALSE; mx.slot[3] = in_locked ? SEXP_TRUE : SEXP_FALSE;
  cv.slot[0] = SEXP_FALSE; cv.slot[1] = SEXP_FALSE; cv.slot[2] = SEXP_NULL;
  int pid[3], rid[3]; n_pre_paused = digits(PAUSED, pid); n_pre_run = digits(RUN, rid);
  in_paused0 = 0;
  for (int k = 1; k <= 3; k++) { TS(k)->refuel = 500; TS(k)->waitp = 0; TS(k)->timeoutp = 0; TS(k)->event = SEXP_FALSE; TS(k)->tval.tv_sec = 0; TS(k)->tval.tv_usec = 0; TS(k)->errorp = 0; }
  in_refuel0 = nondet_bool(); in_wait0 = nondet_bool();
  vm_ctx_obj.refuel = in_refuel0 ? 500 : 0; vm_ctx_obj.waitp = in_wait0; vm_ctx_obj.timeoutp = 0; vm_ctx_obj.event = SEXP_FALSE; vm_ctx_obj.tval.tv_sec = 0; vm_ctx_obj.tval.tv_usec = 0;
  for (int j = 0; j < n_pre_paused; j++) {
    int k = pid[j]; pre_paused[j] = T(k);
#ifdef E1
    in_evt[k] = k == 0 ? E0 : k == 1 ? E1 : k == 2 ? E2 : E3;     /* awaited events enumerated per instance (scheduler group: symbolic events cost 20 M variables) */
#else
    in_evt[k] = nondet_int();
#endif
    __CPROVER_assume(in_evt[k] >= 0 && in_evt[k] <= 3 && !(k == 0 && in_evt[k] == 3));
    in_tv[k] = nondet_long(); in_tvu[k] = nondet_long(); __CPROVER_assume(in_tv[k] >= 0 && in_tv[k] <= 3 && in_tvu[k] >= 0 && in_tvu[k] <= 2 && (in_tv[k] != 0 || in_tvu[k] == 0));   /* wake-up times are absolute: at least one second past the epoch, or none */
    TS(k)->event = evt_of(in_evt[k]); TS(k)->tval.tv_sec = in_tv[k]; TS(k)->tval.tv_usec = in_tvu[k]; TS(k)->waitp = 1;
    if (k == 0) in_paused0 = 1;
  }
  __CPROVER_assume(!in_paused0 || (in_wait0 && in_refuel0));      /* a thread in the paused list is waiting and alive */
  /* the paused list is ordered as sexp_insert_timed keeps it: timed entries in time order first, untimed (zero time) last */
  for (int j = 0; j + 1 < n_pre_paused; j++) {
    struct vm_ctx_t *a = TS(pid[j]), *b = TS(pid[j + 1]);
    int a0 = a->tval.tv_sec == 0 && a->tval.tv_usec == 0, b0 = b->tval.tv_sec == 0 && b->tval.tv_usec == 0;
    __CPROVER_assume(a0 ? b0 : (b0 || !before(b, a->tval.tv_sec, a->tval.tv_usec)));
  }
  for (int j = 0; j < n_pre_run; j++) pre_run[j] = T(rid[j]);
  sexp pl = mklist(n_pre_paused, pid), rl = mklist(n_pre_run, rid);
  vm_globals_obj.data[SEXP_G_THREADS_PAUSED] = pl; vm_globals_obj.data[SEXP_G_THREADS_FRONT] = rl; vm_globals_obj.data[SEXP_G_THREADS_BACK] = last_pair(rl);
  in_now_sec = nondet_long(); in_now_usec = nondet_long(); __CPROVER_assume(in_now_sec >= 1 && in_now_sec <= 4 && in_now_usec >= 0 && in_now_usec <= 2);
  return ctx;
}
/* post-state views */
static sexp post_paused[6], post_run[6]; static int n_post_paused, n_post_run;
static int view(sexp ls, sexp out[6]) { int n = 0; for (int d = 0; d < 6 && sexp_pairp(ls); d++, ls = sexp_cdr(ls)) out[n++] = sexp_car(ls); return sexp_pairp(ls) ? 99 : n; }
static void views(void) {
  n_post_paused = view(vm_globals_obj.data[SEXP_G_THREADS_PAUSED], post_paused);
  n_post_run = view(vm_globals_obj.data[SEXP_G_THREADS_FRONT], post_run);
}
static int count_in(sexp *a, int n, sexp x) { int c = 0; for (int j = 0; j < 6; j++) if (j < n && a[j] == x) c++; return c; }
static void queue_wf(void) {
  sexp f = vm_globals_obj.data[SEXP_G_THREADS_FRONT], b = vm_globals_obj.data[SEXP_G_THREADS_BACK];
  OBL(n_post_run != 99 && n_post_paused != 99, "queue.finite: both lists are proper (no cycle was created)");
  OBL(sexp_pairp(f) ? (b == last_pair(f)) : !sexp_pairp(b), "queue.back: BACK is the last cell of the runnable queue (both empty together)");
}
static int same_seq(sexp *a, int na, sexp *b, int nb) { if (na != nb) return 0; for (int j = 0; j < 6; j++) if (j < na && a[j] != b[j]) return 0; return 1; }
/* b == a with the element at index i removed */
static int seq_minus(sexp *a, int na, int i, sexp *b, int nb) { if (nb != na - 1) return 0; for (int j = 0; j < 6; j++) if (j < nb && b[j] != a[j < i ? j : j + 1]) return 0; return 1; }
/* b == a with x inserted somewhere (exactly once), the others in order */
static int seq_plus(sexp *a, int na, sexp x, sexp *b, int nb) { if (nb != na + 1) return 0; int ok = 0; for (int i = 0; i < 6; i++) if (i < nb && b[i] == x && seq_minus(b, nb, i, a, na)) ok = 1; return ok; }
static int paused_sorted(void) {
  for (int j = 0; j + 1 < 6; j++) if (j + 1 < n_post_paused) {
    struct vm_ctx_t *a = (struct vm_ctx_t*)post_paused[j], *b = (struct vm_ctx_t*)post_paused[j + 1];
    int a0 = a->tval.tv_sec == 0 && a->tval.tv_usec == 0, b0 = b->tval.tv_sec == 0 && b->tval.tv_usec == 0;
    if (!(a0 ? b0 : (b0 || !before(b, a->tval.tv_sec, a->tval.tv_usec)))) return 0;
  }
  return 1;
}
static int first_waiter(sexp ev) { for (int j = 0; j < 4; j++) if (j < n_pre_paused && ((struct vm_ctx_t*)pre_paused[j])->event == ev) return j; return -1; }
static sexp timeout_arg(void) { in_timed = nondet_bool(); in_timeout = nondet_int(); __CPROVER_assume(in_timeout >= 0 && in_timeout <= 3); return in_timed ? sexp_make_fixnum(in_timeout) : SEXP_FALSE; }

void h_mutex_lock(void) {
  sexp ctx = setup(); __CPROVER_assume(!in_paused0 && in_refuel0 && !in_wait0);      /* the caller is running */
  sexp tmo = timeout_arg();
  sexp r = sexp_mutex_lock(ctx, NULL, 3, (sexp)&mx, tmo, SEXP_TRUE);
  views(); queue_wf();
  if (!in_locked) {
    OBL(r == SEXP_TRUE && mx.slot[3] == SEXP_TRUE && mx.slot[2] == ctx, "lock.acquire: a free mutex is taken by the caller");
    OBL(same_seq(pre_paused, n_pre_paused, post_paused, n_post_paused) && same_seq(pre_run, n_pre_run, post_run, n_post_run) && vm_ctx_obj.waitp == 0, "lock.acquire_frame: nobody is moved, the caller keeps running");
  } else {
    OBL(r == SEXP_FALSE && mx.slot[3] == SEXP_TRUE && mx.slot[2] == T(in_owner), "lock.exclusion: a held mutex is not handed to a second thread and keeps its owner");
    OBL(vm_ctx_obj.waitp == 1 && vm_ctx_obj.event == (sexp)&mx, "lock.blocks: the caller waits for this mutex");
    OBL(seq_plus(pre_paused, n_pre_paused, ctx, post_paused, n_post_paused) && same_seq(pre_run, n_pre_run, post_run, n_post_run), "lock.paused: the caller joins the paused list exactly once, every other thread stays where it was");
    OBL(paused_sorted(), "lock.paused_order: the paused list stays in time order");
  }
  REACH();
}
void h_mutex_unlock(void) {
  sexp ctx = setup(); __CPROVER_assume(!in_paused0 && in_refuel0 && !in_wait0);
#ifdef WITH_CV
  sexp cvarg = (sexp)&cv; sexp tmo = timeout_arg();
#else
  sexp cvarg = SEXP_FALSE; sexp tmo = SEXP_FALSE;
#endif
  int w = in_locked ? first_waiter((sexp)&mx) : -1;
  sexp r = sexp_mutex_unlock(ctx, NULL, 3, (sexp)&mx, cvarg, tmo);
  views(); queue_wf();
  OBL(mx.slot[3] == SEXP_FALSE, "unlock.released: the mutex is free afterwards");
  sexp expect_paused[6]; int ne = 0;
  for (int j = 0; j < 4; j++) if (j < n_pre_paused && j != w) expect_paused[ne++] = pre_paused[j];
  if (w >= 0) {
    struct vm_ctx_t *t = (struct vm_ctx_t*)pre_paused[w];
    OBL(n_post_run == n_pre_run + 1 && post_run[0] == pre_paused[w] && same_seq(pre_run, n_pre_run, post_run + 1, n_post_run - 1), "unlock.wakes_first_waiter: the first thread blocked on the mutex becomes runnable (no lost wake-up), the queue keeps its other members in order");
    OBL(t->waitp == 0 && t->timeoutp == 0, "unlock.woken_flags: the woken thread is no longer waiting and did not time out");
  } else {
    OBL(same_seq(pre_run, n_pre_run, post_run, n_post_run), "unlock.no_waiter: without a waiter the runnable queue is unchanged");
  }
#ifdef WITH_CV
  OBL(r == SEXP_FALSE && vm_ctx_obj.waitp == 1 && vm_ctx_obj.event == (sexp)&cv, "unlock.wait_cv: the caller now waits for the condition variable");
  OBL(seq_plus(expect_paused, ne, ctx, post_paused, n_post_paused), "unlock.paused_cv: paused = the other waiters in order plus the caller, once");
  OBL(paused_sorted(), "unlock.paused_order: the paused list stays in time order");
#else
  OBL(r == SEXP_TRUE && same_seq(expect_paused, ne, post_paused, n_post_paused), "unlock.paused: every other paused thread stays paused, in order (no spurious wake-up)");
#endif
  REACH();
}
void h_condvar_signal(void) {
  sexp ctx = setup(); __CPROVER_assume(!in_paused0 && in_refuel0 && !in_wait0);
  int w = first_waiter((sexp)&cv);
  sexp r = sexp_condition_variable_signal(ctx, NULL, 1, (sexp)&cv);
  views(); queue_wf();
  OBL((r == SEXP_TRUE) == (w >= 0), "signal.result: #t iff a thread was waiting");
  if (w >= 0) {
    struct vm_ctx_t *t = (struct vm_ctx_t*)pre_paused[w];
    OBL(n_post_run == n_pre_run + 1 && post_run[0] == pre_paused[w] && same_seq(pre_run, n_pre_run, post_run + 1, n_post_run - 1), "signal.wakes_first_waiter: exactly the first waiter becomes runnable");
    OBL(seq_minus(pre_paused, n_pre_paused, w, post_paused, n_post_paused), "signal.others_stay: every other paused thread stays paused, in order");
    OBL(t->waitp == 0 && t->timeoutp == 0, "signal.woken_flags: the woken thread is no longer waiting");
  } else {
    OBL(same_seq(pre_paused, n_pre_paused, post_paused, n_post_paused) && same_seq(pre_run, n_pre_run, post_run, n_post_run), "signal.no_waiter: nothing moves");
  }
  REACH();
}
void h_condvar_broadcast(void) {
  sexp ctx = setup(); __CPROVER_assume(!in_paused0 && in_refuel0 && !in_wait0);
  sexp r = sexp_condition_variable_broadcast(ctx, NULL, 1, (sexp)&cv);
  views(); queue_wf();
  int nw = 0;
  for (int j = 0; j < 4; j++) if (j < n_pre_paused) {
    struct vm_ctx_t *t = (struct vm_ctx_t*)pre_paused[j];
    if (t->event == (sexp)&cv) { nw++; OBL(count_in(post_run, n_post_run, pre_paused[j]) == 1 && count_in(post_paused, n_post_paused, pre_paused[j]) == 0 && t->waitp == 0, "broadcast.all_waiters: every waiter becomes runnable, once"); }
    else OBL(count_in(post_paused, n_post_paused, pre_paused[j]) == 1 && count_in(post_run, n_post_run, pre_paused[j]) == 0 && t->waitp == 1, "broadcast.others_stay: a thread waiting for something else stays paused");
  }
  for (int j = 0; j < 4; j++) if (j < n_pre_run) OBL(count_in(post_run, n_post_run, pre_run[j]) == 1, "broadcast.queue_kept: runnable threads stay runnable, once");
  OBL(n_post_run == n_pre_run + nw && n_post_paused == n_pre_paused - nw && (r == SEXP_TRUE) == (nw > 0), "broadcast.counts: nobody else appears or disappears");
  REACH();
}
void h_thread_start(void) {
  sexp ctx = setup();
  int fresh = 3; __CPROVER_assume(count_in(pre_run, n_pre_run, T(3)) == 0 && count_in(pre_paused, n_pre_paused, T(3)) == 0);
  th3.errorp = 1;
  sexp r = sexp_thread_start(ctx, NULL, 1, T(fresh));
  views(); queue_wf();
  OBL(r == T(fresh) && n_post_run == n_pre_run + 1 && post_run[n_pre_run] == T(fresh) && same_seq(pre_run, n_pre_run, post_run, n_pre_run), "start.appended: the started thread is appended to the runnable queue, the others keep their order");
  OBL(same_seq(pre_paused, n_pre_paused, post_paused, n_post_paused) && th3.errorp == 0, "start.frame: paused threads are untouched");
  REACH();
}
void h_thread_sleep(void) {
  sexp ctx = setup(); __CPROVER_assume(!in_paused0 && in_refuel0 && !in_wait0);
  int stale = nondet_int(); __CPROVER_assume(stale >= 0 && stale <= 2); vm_ctx_obj.event = evt_of(stale);      /* what the thread waited for last time */
  in_timeout = nondet_int(); __CPROVER_assume(in_timeout >= 0 && in_timeout <= 3);
  sexp r = sexp_thread_sleep(ctx, NULL, 1, sexp_make_fixnum(in_timeout));
  views(); queue_wf();
  OBL(r == SEXP_FALSE && vm_ctx_obj.waitp == 1, "sleep.waits: the caller is marked waiting");
  OBL(vm_ctx_obj.event != (sexp)&mx && vm_ctx_obj.event != (sexp)&cv, "sleep.no_event: a sleeping thread awaits no mutex or condition variable (it must not absorb a wake-up meant for a real waiter)");
  OBL(seq_plus(pre_paused, n_pre_paused, ctx, post_paused, n_post_paused) && same_seq(pre_run, n_pre_run, post_run, n_post_run) && paused_sorted(), "sleep.paused: the caller joins the paused list once, in time order");
  /* a signal now wakes the first real waiter, not the sleeper */
  int w = first_waiter((sexp)&cv);
  sexp r2 = sexp_condition_variable_signal(ctx, NULL, 1, (sexp)&cv);
  views();
  OBL(count_in(post_paused, n_post_paused, ctx) == 1 && vm_ctx_obj.waitp == 1, "sleep.not_signalled: a later signal leaves the sleeper asleep");
  OBL((r2 == SEXP_TRUE) == (w >= 0) && (w < 0 || count_in(post_run, n_post_run, pre_paused[w]) == 1), "sleep.signal_reaches_waiter: ... and reaches the thread that waits for the condition variable");
  REACH();
}
void h_thread_join(void) {
  sexp ctx = setup(); __CPROVER_assume(!in_paused0 && in_refuel0 && !in_wait0);
  int done = nondet_bool(); th3.refuel = done ? 0 : 500;
  sexp tmo = timeout_arg();
  sexp r = sexp_thread_join(ctx, NULL, 2, T(3), tmo);
  views(); queue_wf();
  if (done) OBL(r == SEXP_TRUE && vm_ctx_obj.waitp == 0 && same_seq(pre_paused, n_pre_paused, post_paused, n_post_paused), "join.terminated: joining a terminated thread returns at once");
  else {
    OBL(r == SEXP_FALSE && vm_ctx_obj.waitp == 1 && vm_ctx_obj.event == T(3) && vm_ctx_obj.timeoutp == 0, "join.waits: the caller waits for that thread");
    OBL(seq_plus(pre_paused, n_pre_paused, ctx, post_paused, n_post_paused) && paused_sorted(), "join.paused: the caller joins the paused list once, in time order");
  }
  OBL(same_seq(pre_run, n_pre_run, post_run, n_post_run), "join.frame: the runnable queue is unchanged");
  REACH();
}
static struct vm_ctx_t vm_ctx_obj_pre;     /* the caller's state on entry */
void h_scheduler(void) {
  sexp ctx = setup();
  __CPROVER_assume(in_paused0 || !(in_wait0 && in_refuel0) || 1);
  int ctx_dead = !in_refuel0, ctx_waiting = in_wait0;
  /* which paused threads must wake: joiners of a terminated caller, and timed waiters whose time has passed */
  int wake[4]; int nwake = 0;
  for (int j = 0; j < 4; j++) { wake[j] = 0; if (j < n_pre_paused) {
    struct vm_ctx_t *t = (struct vm_ctx_t*)pre_paused[j];
    if (ctx_dead && t->event == ctx) wake[j] = 1;
    if (before(t, in_now_sec, in_now_usec)) wake[j] = 2;
    if (ctx_dead && t->event == ctx) wake[j] = 1;
    nwake += wake[j] != 0; } }
  vm_ctx_obj_pre = vm_ctx_obj;
  sexp res = sexp_scheduler(ctx, NULL, 1, ctx);
  views(); queue_wf();
  OBL(sexp_contextp(res), "sched.result: the scheduler returns a thread");
  /* S1: nobody is lost or duplicated */
  for (int k = 0; k <= 3; k++) {
    int was = count_in(pre_paused, n_pre_paused, T(k)) + count_in(pre_run, n_pre_run, T(k)) + (k == 0 && !in_paused0 && !ctx_dead);
    int is = count_in(post_paused, n_post_paused, T(k)) + count_in(post_run, n_post_run, T(k)) + (res == T(k) && count_in(post_paused, n_post_paused, T(k)) + count_in(post_run, n_post_run, T(k)) == 0);
    if (was > 0) OBL(is == 1, "sched.nobody_lost: every live thread is afterwards exactly once among the running thread, the runnable queue and the paused list");
    else OBL(is == 0 || (k == 0 && res == ctx), "sched.nobody_invented: no thread appears from nowhere");
  }
  /* S2 / S3: the awaited event happened -> the waiter is resumed */
  for (int j = 0; j < 4; j++) if (j < n_pre_paused && pre_paused[j] != ctx) {
    struct vm_ctx_t *t = (struct vm_ctx_t*)pre_paused[j];
    if (wake[j] == 1) OBL(t->waitp == 0 && count_in(post_paused, n_post_paused, pre_paused[j]) == 0, "sched.join_wakeup: a thread joining the terminated caller is resumed");
    if (wake[j] == 2) OBL(t->waitp == 0 && t->timeoutp == 1 && count_in(post_paused, n_post_paused, pre_paused[j]) == 0, "sched.timeout_wakeup: a waiter whose time-out has passed is resumed with the time-out flag");
    if (wake[j] == 0 && t->tval.tv_sec == 0 && t->tval.tv_usec == 0)
      OBL(t->waitp == 1 && count_in(post_paused, n_post_paused, pre_paused[j]) == 1 && res != pre_paused[j], "sched.no_spurious_wakeup: an untimed waiter whose event has not happened stays paused");
  }
  /* S6: round robin - a runnable caller goes to the back, the head of the queue runs next.  A caller whose own time-out has
     passed is runnable again (its awaited event happened), like a caller that was never waiting. */
  int ctx_timedout = !ctx_dead && ctx_waiting && in_paused0 && before(&vm_ctx_obj_pre, in_now_sec, in_now_usec);
  int ctx_blocked = ctx_dead || (ctx_waiting && !ctx_timedout);
  if (ctx_timedout) OBL(vm_ctx_obj.waitp == 0 && vm_ctx_obj.timeoutp == 1 && count_in(post_paused, n_post_paused, ctx) == 0, "sched.caller_timeout: a caller whose time-out has passed is resumed with the time-out flag");
  if (!ctx_blocked && n_pre_run > 0) {
    OBL(res == pre_run[0], "sched.round_robin: the head of the runnable queue runs next");
    OBL(n_post_run >= 1 && post_run[n_post_run - 1] == ctx && count_in(post_run, n_post_run, ctx) == 1, "sched.caller_to_back: the pre-empted caller is queued last, once");
  }
  if (ctx_blocked && n_pre_run > 0) OBL(res == pre_run[0] && count_in(post_run, n_post_run, ctx) == 0, "sched.blocked_caller_not_queued: a terminated or still-waiting caller is not put on the runnable queue; the head runs next");
  REACH();
}

/* thread-terminate!: a running or blocked thread is marked terminated with the terminate error as its result and made runnable so
 * that the scheduler can reap it; a thread that has ALREADY terminated keeps its result (thread-join! must still return it). */
static struct vm_pair_t term_err, result_obj;
void h_thread_terminate(void) {
  sexp ctx = setup(); __CPROVER_assume(!in_paused0 && in_refuel0 && !in_wait0);
  int k = 3, was_paused = count_in(pre_paused, n_pre_paused, T(k)), was_run = count_in(pre_run, n_pre_run, T(k));
  int done = nondet_bool(); __CPROVER_assume(!(done && (was_paused || was_run)));          /* a finished thread is on no list */
  term_err.h.tag = SEXP_EXCEPTION; verif_register(&term_err); result_obj.h.tag = SEXP_PAIR; verif_register(&result_obj);
  vm_globals_obj.data[SEXP_G_THREAD_TERMINATE_ERROR] = (sexp)&term_err;
  th3.refuel = done ? 0 : 500; th3.errorp = 0; th3.result = (sexp)&result_obj; th3.child = NULL;
  sexp r = sexp_thread_terminate(ctx, NULL, 1, T(k));
  views(); queue_wf();
  OBL(r == SEXP_FALSE, "terminate.result: #f unless the caller terminates itself");
  if (done) {
    OBL(th3.result == (sexp)&result_obj && th3.errorp == 0 && th3.refuel == 0, "terminate.finished_keeps_result: terminating a thread that has already finished leaves its result for thread-join!");
    OBL(same_seq(pre_paused, n_pre_paused, post_paused, n_post_paused) && same_seq(pre_run, n_pre_run, post_run, n_post_run), "terminate.finished_frame: nothing moves");
  } else {
    OBL(th3.refuel == 0 && th3.errorp == 1 && th3.result == (sexp)&term_err, "terminate.marks: a live thread is marked terminated with the terminate error as its result");
    OBL(count_in(post_paused, n_post_paused, T(k)) == 0 && count_in(post_run, n_post_run, T(k)) == (was_paused || was_run), "terminate.unblocked: a paused victim becomes runnable (once), so that the scheduler reaps it");
    for (int j = 1; j <= 2; j++) OBL(count_in(post_paused, n_post_paused, T(j)) == count_in(pre_paused, n_pre_paused, T(j)) && count_in(post_run, n_post_run, T(j)) == count_in(pre_run, n_pre_run, T(j)), "terminate.others: every other thread stays where it was");
  }
  REACH();
}
