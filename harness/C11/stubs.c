#include "vm/vm.h"
sexp sexp_type_exception (sexp ctx, sexp self, sexp_uint_t type_id, sexp x) { return vm_new_exception(); }
sexp sexp_cons_op (sexp ctx, sexp self, sexp_sint_t n, sexp head, sexp tail) { return vm_new_pair(head, tail); }
/* contract of sexp.c:sexp_memq_op: the first tail of ls whose car is x, else #f */
sexp sexp_memq_op (sexp ctx, sexp self, sexp_sint_t n, sexp x, sexp ls) { for (int d = 0; d < 6 && sexp_pairp(ls); d++, ls = sexp_cdr(ls)) if (sexp_car(ls) == x) return ls; return SEXP_FALSE; }
