/* C16: one full collection (the real sexp_gc: mark, weak pass, finalizer pass, sweep) over a small heap holding two
 * ephemerons E1 = (K1 . V1), E2 = (K2 . V2) and a root pair.  The shape (who is rooted, whether K2 is reachable only
 * through V1) is a constant of the instance; the heap contents are concrete apart from padding words.  Specification, from the property text:
 *   live = least set containing the roots, closed under pair car/cdr and under "ephemeron live and key live => value live";
 *   a live ephemeron with live key keeps key and value and is not broken, and its value object survives;
 *   a live ephemeron with dead key is broken (key and value #f);
 *   exactly the live objects survive (untouched, mark cleared), every other cell is on the free list.
 * The type table is sexp.c's own _sexp_type_specs (its text copied verbatim into type_specs.h on every run, and installed as
 * sexp_init_context_globals does); gc.c is the real file. */
#include "common.h"
extern sexp sexp_write_uvector(sexp ctx, sexp self, sexp_sint_t n, sexp obj, sexp writeb, sexp out);   /* address taken by the table only */
extern sexp sexp_finalize_uvector (sexp ctx, sexp self, sexp_sint_t n, sexp obj);
extern sexp sexp_finalize_fileno (sexp ctx, sexp self, sexp_sint_t n, sexp fileno);    /* defined in sexp.c above the table, not declared in sexp.h */
#include "type_specs.h"      /* sexp.c's _sexp_type_specs, copied verbatim on every run (groups/C16.py) */
extern sexp sexp_gc (sexp ctx, size_t *sum_freed);

#define NCELL 9
struct cell { unsigned long w0; void *w1, *w2, *w3; };
struct cell cells[NCELL];
static struct sexp_heap_t hs;
struct typ_t { unsigned int tag; char markedp; unsigned char flags; unsigned short pad0; struct sexp_type_struct t; };
struct vec_t { unsigned int tag; char markedp; unsigned char flags; unsigned short pad0; unsigned long length; sexp data[SEXP_NUM_CORE_TYPES]; };
struct glob_t { unsigned int tag; char markedp; unsigned char flags; unsigned short pad0; unsigned long length; sexp data[SEXP_G_NUM_GLOBALS]; };
struct cx_t { unsigned int tag; char markedp; unsigned char flags; unsigned short pad0;
  sexp stack, env, parent, child, globals, dk, params, proc, name, specific, event, result, dl;
  sexp_heap heap; struct sexp_mark_stack_ptr_t mark_stack[SEXP_MARK_STACK_COUNT]; struct sexp_mark_stack_ptr_t *mark_stack_ptr;
  struct sexp_gc_var_t *saves; sexp_sint_t refuel; unsigned char *ip; struct timeval tval;
  char tailp, tracep, timeoutp, waitp, errorp, interruptp; sexp_uint_t last_fp, gc_count, gc_usecs; };
_Static_assert(offsetof(struct cx_t, heap) == offsetof(struct sexp_struct, value.context.heap)
  && offsetof(struct cx_t, saves) == offsetof(struct sexp_struct, value.context.saves)
  && offsetof(struct cx_t, gc_count) == offsetof(struct sexp_struct, value.context.gc_count), "context layout");
static struct typ_t types[SEXP_NUM_CORE_TYPES];
static struct vec_t types_vec;
static struct glob_t globals;
static struct cx_t ctx_obj;

/* cells: 0 sentinel, 1 E1, 2 K1, 3 V1, 4 E2, 5 K2, 6 V2, 7 R (root pair), 8 free chunk */
enum { cE1 = 1, cK1, cV1, cE2, cK2, cV2, cR, cF };
#ifndef SHAPE
#define SHAPE 0
#endif
#define ROOT_E1 ((SHAPE >> 0) & 1)   /* R.car = E1 */
#define ROOT_E2 ((SHAPE >> 1) & 1)   /* R.cdr = E2 */
#define ROOT_K1 ((SHAPE >> 2) & 1)   /* ctx.dk = K1 */
#define ROOT_K2 ((SHAPE >> 3) & 1)   /* ctx.params = K2 */
#define CHAIN   ((SHAPE >> 4) & 1)   /* V1.cdr = K2: K2 reachable through the value of E1 */
#define ROOT_V2 ((SHAPE >> 5) & 1)   /* ctx.proc = V2 */
#define CROSS   ((SHAPE >> 6) & 1)   /* V2.cdr = K1: K1 reachable through the value of E2 (with CHAIN: a cycle through two ephemerons) */
unsigned long in_payload[NCELL];
#define OBJ(c) ((sexp)&cells[c])
sexp verif_reg[24]; int verif_nreg;       /* prelude VERIF_KINDFOLD: pointer tests on these objects fold (CBMC does not fold tag tests on addresses) */
static void verif_register(void *p) { __CPROVER_assert(verif_nreg < 24, "harness.bound: object registry sufficed"); if (verif_nreg < 24) verif_reg[verif_nreg++] = (sexp)p; }

static void *a0[NCELL], *b0[NCELL];
static void mk(int c, int tag, void *a, void *b) {
  a0[c] = a; b0[c] = b;
  cells[c].w0 = 0; ((struct sexp_struct*)&cells[c])->tag = tag; cells[c].w1 = a; cells[c].w2 = b;
  /* every slot of a pair is traced; a slot that holds no object holds NULL, which the collector skips like an immediate:
     CBMC folds pointer tests on object addresses (prelude VERIF_KINDFOLD) and on NULL, but not on immediates held in
     pointer variables, and one unfolded test makes the whole mark phase symbolic.  The padding word of an ephemeron is symbolic. */
  in_payload[c] = (tag == SEXP_PAIR) ? 0ul : nondet_ulong();
  cells[c].w3 = (void*)in_payload[c];
}
static sexp build(void) {
  for (int i = 0; i < SEXP_NUM_CORE_TYPES; i++) { types[i].tag = SEXP_TYPE; types[i].t = _sexp_type_specs[i]; types[i].t.name = SEXP_FALSE; types_vec.data[i] = (sexp)&types[i]; }
  types_vec.tag = SEXP_VECTOR; types_vec.length = SEXP_NUM_CORE_TYPES;
  globals.tag = SEXP_VECTOR; globals.length = 0;      /* the global vector itself is outside the heap under test: no slots traced */
  globals.data[SEXP_G_TYPES] = (sexp)&types_vec; globals.data[SEXP_G_NUM_TYPES] = sexp_make_fixnum(SEXP_NUM_CORE_TYPES);
  /* sexp_make_ephemeron_op stores SEXP_TRUE here and the collector only tests it with sexp_not.  CBMC does not fold a test of an
     immediate held in a pointer variable, and the unfolded early return of the weak pass merges two heaps (every later walk is then
     symbolic: 140 s and 11 M variables per instance); a registered object is "not #f" as well and folds. */
  globals.data[SEXP_G_WEAK_OBJECTS_PRESENT] = (sexp)&types_vec;
  hs.size = NCELL * 32; hs.max_size = 0; hs.chunk_size = 0; hs.next = NULL; hs.data = (char*)cells; hs.free_list = (sexp_free_list)&cells[0];
  cells[0].w0 = 0; cells[0].w1 = &cells[cF]; cells[cF].w0 = 32; cells[cF].w1 = NULL;
  mk(cE1, SEXP_EPHEMERON, &cells[cK1], &cells[cV1]);
  mk(cK1, SEXP_PAIR, NULL, NULL);
  mk(cV1, SEXP_PAIR, NULL, CHAIN ? (void*)&cells[cK2] : (void*)NULL);
  mk(cE2, SEXP_EPHEMERON, &cells[cK2], &cells[cV2]);
  mk(cK2, SEXP_PAIR, NULL, NULL);
  mk(cV2, SEXP_PAIR, NULL, CROSS ? (void*)&cells[cK1] : (void*)NULL);
  mk(cR, SEXP_PAIR, ROOT_E1 ? (void*)&cells[cE1] : (void*)NULL, ROOT_E2 ? (void*)&cells[cE2] : (void*)NULL);
  ctx_obj.tag = SEXP_CONTEXT; ctx_obj.globals = (sexp)&globals; ctx_obj.heap = &hs; ctx_obj.saves = NULL; ctx_obj.mark_stack_ptr = NULL;
  ctx_obj.env = OBJ(cR);
  for (int c = cE1; c <= cR; c++) verif_register(&cells[c]);
  verif_register(&ctx_obj); verif_register(&globals); verif_register(&types_vec);
  ctx_obj.dk = ROOT_K1 ? OBJ(cK1) : NULL; ctx_obj.params = ROOT_K2 ? OBJ(cK2) : NULL; ctx_obj.proc = ROOT_V2 ? OBJ(cV2) : NULL;
  return (sexp)&ctx_obj;
}

/* the specification's live set, by fixpoint over the 7 objects */
static int live[NCELL];
static void spec_live(void) {
  for (int c = 0; c < NCELL; c++) live[c] = 0;
  live[cR] = 1; if (ROOT_K1) live[cK1] = 1; if (ROOT_K2) live[cK2] = 1; if (ROOT_V2) live[cV2] = 1;
  for (int it = 0; it < 8; it++) {
    if (live[cR] && ROOT_E1) live[cE1] = 1;
    if (live[cR] && ROOT_E2) live[cE2] = 1;
    if (live[cV1] && CHAIN) live[cK2] = 1;
    if (live[cV2] && CROSS) live[cK1] = 1;
    if (live[cE1] && live[cK1]) live[cV1] = 1;     /* the value is retained through the ephemeron while the key is alive */
    if (live[cE2] && live[cK2]) live[cV2] = 1;
  }
}
static int on_free_list(int c) {
  struct cell *f = (struct cell*)cells[0].w1;
  for (int d = 0; d < NCELL && f != NULL; d++, f = (struct cell*)f->w1) {
    long start = f - cells, n = (long)(f->w0 / 32);
    if (c >= start && c < start + n) return 1;
  }
  return 0;
}
static void check_eph(int cE, int cK, int cV) {
  if (!live[cE]) return;
  sexp e = OBJ(cE);
  if (live[cK]) {
    OBL(cells[cE].w1 == (void*)&cells[cK] && !sexp_brokenp(e), "ephemeron.key_alive: the key of a live ephemeron whose key is strongly reachable is not broken");
    OBL(cells[cE].w2 == (void*)&cells[cV], "ephemeron.value_kept: ... and its value slot is unchanged");
    OBL(!on_free_list(cV) && ((struct sexp_struct*)&cells[cV])->tag == SEXP_PAIR, "ephemeron.value_retained: the value object is retained through the ephemeron while the key is alive");
  } else {
    OBL(sexp_brokenp(e), "ephemeron.broken: once the key is unreachable the ephemeron is broken by this collection");
    OBL(cells[cE].w1 == (void*)SEXP_FALSE, "ephemeron.key_cleared: ... its key slot reads #f");
    OBL(cells[cE].w2 == (void*)SEXP_FALSE, "ephemeron.value_dropped: ... and it no longer holds the value");
  }
}
void h_gc_weak(void) {
  sexp ctx = build(); spec_live();
  size_t sum = 0;
  sexp r = sexp_gc(ctx, &sum);
  check_eph(cE1, cK1, cV1); check_eph(cE2, cK2, cV2);
  size_t want_sum = 0;
  for (int c = 1; c < cF; c++) {
    if (live[c]) {
      OBL(!on_free_list(c), "gc.live_survives: an object reachable under the ephemeron rule is not reclaimed");
      OBL(((struct sexp_struct*)&cells[c])->markedp == 0, "gc.mark_cleared: survivors leave the collection unmarked");
      if (c != cE1 && c != cE2) OBL(((struct sexp_struct*)&cells[c])->tag == SEXP_PAIR && cells[c].w1 == a0[c] && cells[c].w2 == b0[c] && cells[c].w3 == NULL, "gc.live_untouched: a surviving pair keeps its contents");
    } else {
      OBL(on_free_list(c), "gc.dead_reclaimed: an object not reachable under the ephemeron rule is returned to the free list (the value is retained only while the key is alive)");
      want_sum += 32;
    }
  }
  OBL(sum == want_sum, "gc.sum_freed: freed bytes are those of the unreachable objects");
  OBL(ctx_obj.gc_count == 1, "gc.count: one collection counted");
  (void)r;
  REACH();
}

/* two heap segments, two collections: E3 = (K1 . nothing) lives in the second segment, rooted through a pair there; K1 (first segment)
 * is rooted during the first collection and dropped before the second: "once it is unreachable it is broken after the next full
 * collection" - also when the segment scanned first holds no live weak object. */
struct cell cells2[4];
static struct sexp_heap_t hs2;
void h_gc_twice(void) {
  sexp ctx = build();
  hs.next = &hs2; hs2.size = 4 * 32; hs2.max_size = 0; hs2.chunk_size = 0; hs2.next = NULL; hs2.data = (char*)cells2; hs2.free_list = (sexp_free_list)&cells2[0];
  cells2[0].w0 = 0; cells2[0].w1 = &cells2[3]; cells2[3].w0 = 32; cells2[3].w1 = NULL;
  cells2[1].w0 = 0; ((struct sexp_struct*)&cells2[1])->tag = SEXP_EPHEMERON; cells2[1].w1 = &cells[cK1]; cells2[1].w2 = NULL; cells2[1].w3 = NULL;
  cells2[2].w0 = 0; ((struct sexp_struct*)&cells2[2])->tag = SEXP_PAIR; cells2[2].w1 = &cells2[1]; cells2[2].w2 = NULL; cells2[2].w3 = NULL;
  verif_register(&cells2[1]); verif_register(&cells2[2]);
  ctx_obj.name = (sexp)&cells2[2]; ctx_obj.dk = OBJ(cK1);
  size_t sum = 0;
  sexp e3 = (sexp)&cells2[1];
  sexp_gc(ctx, &sum);
  OBL(cells2[1].w1 == (void*)&cells[cK1] && !sexp_brokenp(e3), "twice.first: while the key is rooted the ephemeron in the second segment is intact");
  ctx_obj.markedp = 0; globals.markedp = 0;   /* the context of this harness lies outside the heap, so the sweep did not clear its mark as it does for a real (heap-allocated) context */
  ctx_obj.dk = NULL;                  /* the last strong reference to K1 disappears (CROSS shapes may still reach it through V2) */
  spec_live(); int k1_live = live[cK1] && !ROOT_K1 ? 1 : 0;
  sexp_gc(ctx, &sum);
  if (!(CROSS && k1_live)) {
    OBL(sexp_brokenp(e3), "twice.broken_next_gc: the key became unreachable, the next full collection breaks the ephemeron");
    OBL(cells2[1].w1 == (void*)SEXP_FALSE, "twice.key_cleared: ... and its key slot reads #f, not a dangling pointer");
    OBL(on_free_list(cK1), "twice.key_reclaimed: the key is reclaimed");
  }
  OBL(ctx_obj.gc_count == 2, "twice.count: two collections");
  REACH();
}

#ifdef FIN_COUNT
/* finalizer pass of the real sexp_gc: cells 1..3 are file-descriptor objects F1..F3 (type FILENO of the real table, finalizer
 * sexp_finalize_fileno replaced by a recording stub), 4..6 pairs, 7 the root pair.  SHAPE bit k: F(k+1) is referenced from a live pair. */
extern int fin_calls; extern sexp fin_arg[4]; extern sexp fin_ctx;
void h_gc_finalize(void) {
  sexp ctx = build();
  for (int c = 1; c <= 3; c++) { cells[c].w0 = 0; ((struct sexp_struct*)&cells[c])->tag = SEXP_FILENO; cells[c].w1 = (void*)nondet_ulong(); cells[c].w2 = (void*)nondet_ulong(); cells[c].w3 = (void*)nondet_ulong(); }
  for (int c = 4; c <= 6; c++) { cells[c].w0 = 0; ((struct sexp_struct*)&cells[c])->tag = SEXP_PAIR; cells[c].w1 = ((SHAPE >> (c - 4)) & 1) ? (void*)&cells[c - 3] : NULL; cells[c].w2 = (c < 6) ? (void*)&cells[c + 1] : NULL; cells[c].w3 = NULL; }
  cells[cR].w1 = &cells[4]; cells[cR].w2 = NULL; ctx_obj.dk = NULL; ctx_obj.params = NULL; ctx_obj.proc = NULL;
  size_t sum = 0;
  sexp_gc(ctx, &sum);
  int want = 0;
  for (int k = 0; k < 3; k++) {
    int rooted = (SHAPE >> k) & 1, calls = 0;
    for (int j = 0; j < 4; j++) if (j < fin_calls && fin_arg[j] == OBJ(k + 1)) calls++;
    OBL(calls == !rooted, "finalize.exactly_once: the finalizer of an unreachable owner runs exactly once in the collection, that of a reachable owner never");
    OBL(on_free_list(k + 1) == !rooted, "finalize.reclaimed: the unreachable owner is reclaimed after its finalizer ran, the reachable one kept");
    want += !rooted;
  }
  OBL(fin_calls == want && (want == 0 || fin_ctx == ctx), "finalize.count: no other finalizer call");
  REACH();
}
#endif
