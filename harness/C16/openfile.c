/* C16 (collect-and-retry when descriptors are exhausted): open-input-file / open-output-file of eval.c.
 * fopen is a stub whose two results and errno values are symbolic; sexp_gc is a counting stub.  Contract, from
 * the property text ("a program that keeps dropping unclosed ports does not run out of descriptors"):
 * a failure with EMFILE is followed by exactly one collection and one retry; any other outcome by none. */
#include "vm/vm.h"
#include <errno.h>
#include <stdio.h>
static int the_errno; int *__errno_location(void) { return &the_errno; }
static FILE file_a, file_b;
int in_ok1, in_ok2, in_err1, in_err2, in_output;
static int n_fopen, n_gc, gc_before_second; static const char *fopen_mode[3];
static FILE *verif_fopen(const char *path, const char *mode) {
  if (n_fopen < 3) fopen_mode[n_fopen] = mode;
  n_fopen++;
  if (n_fopen == 1) { if (in_ok1) return &file_a; the_errno = in_err1; return NULL; }
  gc_before_second = n_gc;
  if (in_ok2) return &file_b; the_errno = in_err2; return NULL;
}
#define fopen verif_fopen
#define fcntl(fd, cmd, arg) 0
#include "eval.c"
#undef fopen
sexp sexp_gc (sexp ctx, size_t *sum_freed) { n_gc++; return SEXP_ZERO; }      /* the collector: C16 gc_weak / gc_finalize; here only the call matters */
static struct vm_pair_t port_obj; static FILE *port_stream; static int port_is_output;
sexp sexp_make_input_port (sexp ctx, FILE *in, sexp name) { port_stream = in; port_is_output = 0; port_obj.h.tag = SEXP_IPORT; return (sexp)&port_obj; }
sexp sexp_make_output_port (sexp ctx, FILE *out, sexp name) { port_stream = out; port_is_output = 1; port_obj.h.tag = SEXP_OPORT; return (sexp)&port_obj; }
sexp sexp_file_exception (sexp ctx, sexp self, const char *msg, sexp x) { return vm_new_exception(); }
sexp sexp_type_exception (sexp ctx, sexp self, sexp_uint_t type_id, sexp x) { return vm_new_exception(); }
int fileno(FILE *f) { return 5; }
static struct { struct vm_hdr h; unsigned long length; char data[8]; } p_bytes; static struct { struct vm_hdr h; sexp bytes; unsigned long offset, length; } p_str;

void h_open_file(void) {
  vm_ctx_obj.h.tag = SEXP_CONTEXT; verif_register(&vm_ctx_obj); sexp ctx = (sexp)&vm_ctx_obj; sexp_context_saves(ctx) = NULL;
  p_bytes.h.tag = SEXP_BYTES; p_bytes.length = 5; memcpy(p_bytes.data, "/x/y", 5); verif_register(&p_bytes);
  p_str.h.tag = SEXP_STRING; p_str.bytes = (sexp)&p_bytes; p_str.offset = 0; p_str.length = 4; verif_register(&p_str);
  in_ok1 = nondet_bool(); in_ok2 = nondet_bool(); in_err1 = nondet_int(); in_err2 = nondet_int(); in_output = nondet_bool();
  the_errno = nondet_int();
  sexp r = in_output ? sexp_open_output_file_op(ctx, NULL, 1, (sexp)&p_str) : sexp_open_input_file_op(ctx, NULL, 1, (sexp)&p_str);
  int retry = !in_ok1 && in_err1 == EMFILE;
  OBL(n_fopen == 1 + retry, "open.retry_once: a failure for lack of descriptors is retried exactly once, any other outcome is final");
  OBL(n_gc == retry, "open.collect_on_exhaustion: exactly one collection runs when (and only when) descriptors are exhausted");
  OBL(!retry || gc_before_second == 1, "open.collect_before_retry: the collection runs before the retry");
  int ok = in_ok1 || (retry && in_ok2);
  OBL(ok == !sexp_exceptionp(r), "open.result: a port iff some attempt succeeded");
  OBL(!ok || (r == (sexp)&port_obj && port_stream == (in_ok1 ? &file_a : &file_b) && port_is_output == in_output), "open.port: the port wraps the stream that was opened, in the requested direction");
  REACH();
}
