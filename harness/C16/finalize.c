/* C16 (resources released exactly once, never while the owner is reachable - the finalizer side):
 * sexp_finalize_fileno / sexp_finalize_port of sexp.c against their contract, with the OS calls (close, fclose,
 * shutdown, fflush, fileno) replaced by counting stubs.  All flags, the descriptor's reference count and the
 * presence of a stream are symbolic; loop-free, full domain.  Each finalizer is run twice: the second run
 * (finalizing an already closed object, e.g. close-port followed by collection) must release nothing. */
#include "common.h"
sexp verif_reg[24]; int verif_nreg;
static void verif_register(void *p) { if (verif_nreg < 24) verif_reg[verif_nreg++] = (sexp)p; }
#include <stdio.h>
static int n_close, n_fclose, n_shutdown, n_flush; static long closed_fd;
static FILE the_stream;
#define close verif_close
#define fclose verif_fclose
#define shutdown verif_shutdown
#define fflush verif_fflush
static int verif_close(int fd) { n_close++; closed_fd = fd; return 0; }
static int verif_fclose(FILE *f) { __CPROVER_assert(f == &the_stream, "fclose.arg: the port's own stream"); n_fclose++; return 0; }
static int verif_shutdown(int fd, int how) { n_shutdown++; return 0; }
static int verif_fflush(FILE *f) { n_flush++; return 0; }
int fileno(FILE *f) { return 7; }      /* cannot be renamed by macro: 'fileno' is also a member of the object union */
#include "sexp.c"
#undef close
#undef fclose
#undef shutdown
#undef fflush

struct hdr { unsigned int tag; char markedp; unsigned char flags; unsigned short pad0; };
struct fileno_t { struct hdr h; char openp, no_closep; sexp_sint_t fd, count; };
struct port_t { struct hdr h; sexp name, cookie, fd; FILE *stream; char *buf; char openp, bidirp, binaryp, shutdownp, no_closep, sourcep, blockedp, fold_casep;
  sexp_uint_t offset, line, flags; size_t size; };
_Static_assert(offsetof(struct fileno_t, count) == offsetof(struct sexp_struct, value.fileno.count) && offsetof(struct port_t, no_closep) == offsetof(struct sexp_struct, value.port.no_closep)
  && offsetof(struct port_t, size) == offsetof(struct sexp_struct, value.port.size), "port / fileno layout");
static struct fileno_t fn; static struct port_t pt; static struct sexp_struct ctx_dummy;
char in_f_open, in_f_noclose, in_p_open, in_p_noclose, in_p_shutdown, in_out, in_has_stream, in_has_fd; long in_fd, in_count;

static void mk_fileno(void) {
  in_f_open = nondet_bool(); in_f_noclose = nondet_bool(); in_fd = nondet_long(); in_count = nondet_long();
  __CPROVER_assume(in_fd >= 0 && in_fd < 1024 && in_count >= 1 && in_count <= 1000);
  fn.h.tag = SEXP_FILENO; fn.openp = in_f_open; fn.no_closep = in_f_noclose; fn.fd = in_fd; fn.count = in_count; verif_register(&fn);
}
void h_finalize_fileno(void) {
  mk_fileno();
  sexp r = sexp_finalize_fileno((sexp)&ctx_dummy, NULL, 1, (sexp)&fn);
  int want = in_f_open && !in_f_noclose;
  OBL(n_close == want, "fileno.close_once: the descriptor is closed iff it is open and closable");
  OBL(!want || closed_fd == in_fd, "fileno.close_fd: ... and it is this descriptor");
  OBL(!want || fn.openp == 0, "fileno.marked_closed: a closed descriptor is marked closed");
  sexp_finalize_fileno((sexp)&ctx_dummy, NULL, 1, (sexp)&fn);
  OBL(n_close == want, "fileno.idempotent: finalizing again closes nothing (released exactly once)");
  (void)r; REACH();
}
void h_finalize_port(void) {
  mk_fileno();
  in_p_open = nondet_bool(); in_p_noclose = nondet_bool(); in_p_shutdown = nondet_bool(); in_out = nondet_bool(); in_has_stream = nondet_bool(); in_has_fd = nondet_bool();
  pt.h.tag = in_out ? SEXP_OPORT : SEXP_IPORT; pt.openp = in_p_open; pt.no_closep = in_p_noclose; pt.shutdownp = in_p_shutdown;
  pt.stream = in_has_stream ? &the_stream : NULL; pt.buf = NULL; pt.fd = in_has_fd ? (sexp)&fn : SEXP_FALSE; pt.name = SEXP_FALSE; pt.cookie = SEXP_FALSE;
  pt.offset = 3; pt.size = 5; verif_register(&pt);
  sexp_finalize_port((sexp)&ctx_dummy, NULL, 1, (sexp)&pt);
  int uses_fd = in_p_open && in_has_fd && in_f_open;
  int drops = uses_fd && !in_p_noclose;
  int want_close = drops && in_count == 1 && !in_f_noclose;
  OBL(pt.openp == 0, "port.closed: a finalized port is closed");
  OBL(fn.count == in_count - drops, "port.refcount: an open port drops exactly one reference of its open descriptor (none when it must not close)");
  OBL(n_close == want_close, "port.close_last: the descriptor is closed iff this was its last reference");
  OBL(n_fclose == (in_p_open && in_has_stream && !in_p_noclose), "port.fclose: the stream is closed iff the port was open and closable");
  OBL(!(in_p_open == 0) || (n_close == 0 && n_fclose == 0 && n_shutdown == 0 && fn.count == in_count), "port.already_closed: finalizing a closed port releases nothing");
  int c1 = n_close, f1 = n_fclose; long k1 = fn.count;
  sexp_finalize_port((sexp)&ctx_dummy, NULL, 1, (sexp)&pt);
  OBL(n_close == c1 && n_fclose == f1 && fn.count == k1, "port.idempotent: finalizing again releases nothing (exactly once)");
  REACH();
}
