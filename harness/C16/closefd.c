/* C16 (a descriptor is released exactly once): close-file-descriptor of lib/chibi/filesystem.stub (the C that tools/chibi-ffi
 * generates from it on every run) followed by the finalizer of the same descriptor object (sexp.c:sexp_finalize_fileno, as the
 * collector runs it once the object is unreachable).  close() is a counting stub.  The descriptor number may have been handed
 * out again by the OS in between, so a second close() releases somebody else's resource. */
#include "common.h"
sexp verif_reg[24]; int verif_nreg;
static void verif_register(void *p) { if (verif_nreg < 24) verif_reg[verif_nreg++] = (sexp)p; }
static int n_close; static long closed_fd[4];
static int verif_close(int fd) { if (n_close < 4) closed_fd[n_close] = fd; n_close++; return 0; }
#define close verif_close
#include "sexp.c"
#include "filesystem_gen.c"
#undef close
struct hdr { unsigned int tag; char markedp; unsigned char flags; unsigned short pad0; };
struct fileno_t { struct hdr h; char openp, no_closep; sexp_sint_t fd, count; };
_Static_assert(offsetof(struct fileno_t, count) == offsetof(struct sexp_struct, value.fileno.count), "fileno layout");
static struct fileno_t fn; static struct sexp_struct ctx_dummy;
long in_fd; char in_noclose;
void h_close_fd(void) {
  in_fd = nondet_long(); __CPROVER_assume(in_fd >= 0 && in_fd < 1024); in_noclose = nondet_bool();
  fn.h.tag = SEXP_FILENO; fn.openp = 1; fn.no_closep = in_noclose; fn.fd = in_fd; fn.count = 0; verif_register(&fn);
  sexp r = sexp_close_file_descriptor_stub((sexp)&ctx_dummy, NULL, 1, (sexp)&fn);
  OBL(r == SEXP_TRUE && n_close == 1 && closed_fd[0] == in_fd, "close_fd.closes: close-file-descriptor closes the descriptor");
  sexp_finalize_fileno((sexp)&ctx_dummy, NULL, 1, (sexp)&fn);            /* the object becomes unreachable later */
  OBL(n_close == 1, "close_fd.exactly_once: a descriptor closed explicitly is not closed again by its finalizer (the number may belong to another port by then)");
  sexp_close_file_descriptor_stub((sexp)&ctx_dummy, NULL, 1, (sexp)&fn);
  OBL(n_close == 1, "close_fd.idempotent: closing the same descriptor object again releases nothing");
  REACH();
}
