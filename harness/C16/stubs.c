/* the heap of harness/C16/weak.c holds pairs and ephemerons only: no finalizer may be called */
#include "common.h"
sexp sexp_finalize_port (sexp ctx, sexp self, sexp_sint_t n, sexp port) { __CPROVER_assert(0, "finalize.none: no port in this heap, the port finalizer is not called"); return SEXP_VOID; }
#ifdef FIN_COUNT
int fin_calls; sexp fin_arg[4]; sexp fin_ctx;
sexp sexp_finalize_fileno (sexp ctx, sexp self, sexp_sint_t n, sexp fileno) { if (fin_calls < 4) fin_arg[fin_calls] = fileno; fin_calls++; fin_ctx = ctx; return SEXP_VOID; }
#else
sexp sexp_finalize_fileno (sexp ctx, sexp self, sexp_sint_t n, sexp fileno) { __CPROVER_assert(0, "finalize.none: no fileno in this heap, the fileno finalizer is not called"); return SEXP_VOID; }
#endif
sexp sexp_finalize_uvector (sexp ctx, sexp self, sexp_sint_t n, sexp obj) { __CPROVER_assert(0, "finalize.none: no uniform vector in this heap"); return SEXP_VOID; }
sexp sexp_finalize_dl (sexp ctx, sexp self, sexp_sint_t n, sexp dl) { __CPROVER_assert(0, "finalize.none: no dl in this heap"); return SEXP_VOID; }
int getrusage (int who, struct rusage *r) { return 0; }     /* SEXP_USE_TIME_GC bookkeeping: the times are not part of any obligation */
