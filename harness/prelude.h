/* Accessor prelude (DESIGN 1.1): force-included in every verified TU.
 * Same addresses, same types as the repository macros; only the static type
 * through which CBMC bounds-checks the access changes (the exact field
 * instead of the whole 24 KB union).  No executable statement of the
 * repository is altered. */
#ifndef VERIF_PRELUDE_H
#define VERIF_PRELUDE_H
#include <stddef.h>
/* a stub TU that replaces a static inline helper of a header renames the header's copy */
#ifdef STUB_luint_mul_uint
#define luint_mul_uint luint_mul_uint__hdr
#endif
#include "chibi/eval.h"
#ifdef STUB_luint_mul_uint
#undef luint_mul_uint
#endif

#undef sexp_field
#undef sexp_pred_field
#undef sexp_cpointer_field
#undef sexp_flonum_value
#undef sexp_flonum_value_set
#undef sexp_flonum_bits
#undef sexp_ref_cell
#undef sexp_context_heap

#define VERIF_AT(x, path) \
  (*(__typeof__(((sexp)0)->value.path)*)((char*)(x) + offsetof(struct sexp_struct, value.path)))
#define sexp_field(x, type, id, field)        VERIF_AT(x, type.field)
#define sexp_pred_field(x, type, pred, field) VERIF_AT(x, type.field)
#define sexp_cpointer_field(x, field)         VERIF_AT(x, cpointer.field)
#define sexp_flonum_value(f)                  VERIF_AT(f, flonum)
#define sexp_flonum_value_set(f, x)           (VERIF_AT(f, flonum) = (x))
#define sexp_flonum_bits(f)                   ((char*)(f) + offsetof(struct sexp_struct, value.flonum_bits))
#define sexp_ref_cell(x)                      VERIF_AT(x, ref.cell)
#define sexp_context_heap(ctx)                VERIF_AT(ctx, context.heap)

/* Header flag bit-fields (DESIGN C16): a bit-field store through the 24 KB
 * struct type into a differently typed backing object is mis-modelled by
 * CBMC.  The five flags live in byte 5 of the header (bit order checked
 * natively at set-up by vlib/prep.py). */
struct verif_hdr_flags { unsigned char immutablep:1, freep:1, brokenp:1, syntacticp:1, copyonwritep:1; };
#define VERIF_FLAGS(x) (*(struct verif_hdr_flags*)((char*)(x) + 5))
#undef sexp_immutablep
#undef sexp_mutablep
#undef sexp_freep
#undef sexp_brokenp
#undef sexp_copy_on_writep
#undef sexp_env_cell_syntactic_p
#undef sexp_env_syntactic_p
#define sexp_immutablep(x)          (VERIF_FLAGS(x).immutablep)
#define sexp_mutablep(x)            (!VERIF_FLAGS(x).immutablep)
#define sexp_freep(x)               (VERIF_FLAGS(x).freep)
#define sexp_brokenp(x)             (VERIF_FLAGS(x).brokenp)
#define sexp_copy_on_writep(x)      (VERIF_FLAGS(x).copyonwritep)
#define sexp_env_cell_syntactic_p(x) (VERIF_FLAGS(x).syntacticp)
#define sexp_env_syntactic_p(x)     (VERIF_FLAGS(x).syntacticp)

/* Sign tests on a fixnum held in a pointer (third substitution, DESIGN 1.1).
 * CBMC's expression simplifier assumes that a pointer cast to a signed integer
 * is never negative and folds `(sexp_sint_t)p < 0` to false (reproduction in
 * DESIGN); `((sexp_sint_t)p) >> 63` is modelled faithfully.  The two header
 * macros that test the sign this way are re-expressed through the shift; same
 * value on every two's-complement target. */
#define VERIF_SNEG(a) ((((sexp_sint_t)(a)) >> (8 * sizeof(sexp_sint_t) - 1)) != 0)
#undef sexp_fx_abs
#undef sexp_unbox_fx_abs
#define sexp_fx_abs(a)       (VERIF_SNEG(a) ? sexp_fx_neg(a) : a)
#define sexp_unbox_fx_abs(a) (VERIF_SNEG(a) ? -sexp_unbox_fixnum(a) : sexp_unbox_fixnum(a))

/* Opt-in (-DVERIF_UF_MUL): the 64x64->128 word multiplication is an uninterpreted function
 * shared by the code and the specification (only congruence is used).  SAT cannot decide
 * equalities between two bit-blasted 64-bit multipliers in reasonable time; listed as an
 * assumption by every group that uses it. */
#ifdef VERIF_UF_MUL
unsigned long __CPROVER_uninterpreted_mulhi64(unsigned long, unsigned long);
unsigned long __CPROVER_uninterpreted_mullo64(unsigned long, unsigned long);
static inline sexp_luint_t verif_mul_uf(sexp_luint_t a, sexp_uint_t b) {
  __CPROVER_assert((a >> 64) == 0, "uf_mul.precondition: first factor is a single word");
  unsigned long hi = __CPROVER_uninterpreted_mulhi64((unsigned long)a, b);
  /* the one arithmetic fact about products the carry logic depends on:
     a*b <= (2^64-1)^2 = 2^128 - 2^65 + 1, so the high word is at most 2^64-2 */
  __CPROVER_assume(hi != ~0UL);
  return ((sexp_luint_t)hi << 64) | __CPROVER_uninterpreted_mullo64((unsigned long)a, b);
}
#undef luint_mul_uint
#define luint_mul_uint(a, b) verif_mul_uf((sexp_luint_t)(a), (sexp_uint_t)(b))
#endif

/* Opt-in (-DVERIF_KINDFOLD): kind tests on registered heap objects (DESIGN 1.3, "shape facts").
 * CBMC treats the address of an object as an opaque bit-vector, so `((sexp_uint_t)x & 3) == 0`
 * does not fold for x = &object and every tag dispatch explores all its arms with garbage
 * operands.  For an object the harness (or its allocator stub) registered, the tests return the
 * constant a real, 8-byte aligned heap object gives; for every other value (fixnums, immediates,
 * unregistered pointers) the repository's own expression is evaluated.  The alignment of the
 * registered objects is the assumption (listed by each group that opts in). */
#ifdef VERIF_KINDFOLD
extern sexp verif_reg[]; extern int verif_nreg;
#define VR(k) (x == verif_reg[k])
static inline int verif_registered(sexp x) {   /* no loop: each comparison folds on its own for a definite pointer */
  return x != 0 && (VR(0) || VR(1) || VR(2) || VR(3) || VR(4) || VR(5) || VR(6) || VR(7) || VR(8) || VR(9) || VR(10) || VR(11)
                    || VR(12) || VR(13) || VR(14) || VR(15) || VR(16) || VR(17) || VR(18) || VR(19) || VR(20) || VR(21) || VR(22) || VR(23));
}
static inline int verif_pointerp(sexp x) { if (verif_registered(x)) return 1; return (((sexp_uint_t)(x) & SEXP_POINTER_MASK) == SEXP_POINTER_TAG); }
static inline int verif_fixnump(sexp x) { if (verif_registered(x)) return 0; return (((sexp_uint_t)(x) & SEXP_FIXNUM_MASK) == SEXP_FIXNUM_TAG); }
/* comparisons of a value with an immediate constant: a registered heap object is never an immediate
 * (CBMC does not fold `&object == (sexp)14`) */
static inline int verif_is_imm(sexp x, sexp imm) { if (verif_registered(x)) return 0; return x == imm; }
#undef sexp_pointerp
#undef sexp_fixnump
#undef sexp_truep
#undef sexp_not
#undef sexp_nullp
#define sexp_pointerp(x) verif_pointerp((sexp)(x))
#define sexp_fixnump(x)  verif_fixnump((sexp)(x))
#define sexp_truep(x)    (!verif_is_imm((sexp)(x), SEXP_FALSE))
#define sexp_not(x)      verif_is_imm((sexp)(x), SEXP_FALSE)
#define sexp_nullp(x)    verif_is_imm((sexp)(x), SEXP_NULL)
#endif

/* Opt-in (-DVERIF_UF_SMUL): the signed 64x64->128 product of the VM's MUL fast path is an
 * uninterpreted function shared by code and specification (machine multiplication trusted). */
#ifdef VERIF_UF_SMUL
long __CPROVER_uninterpreted_smulhi(long, long);
unsigned long __CPROVER_uninterpreted_smullo(long, long);
static inline sexp_lsint_t verif_smul_uf(sexp_lsint_t a, sexp_sint_t b) {
  __CPROVER_assert(a == (sexp_lsint_t)(sexp_sint_t)a, "uf_smul.precondition: first factor fits a word");
  return (sexp_lsint_t)(((unsigned __int128)(unsigned long)__CPROVER_uninterpreted_smulhi((long)a, b) << 64) | __CPROVER_uninterpreted_smullo((long)a, b));
}
#undef lsint_mul_sint
#define lsint_mul_sint(a, b) verif_smul_uf((sexp_lsint_t)(a), (sexp_sint_t)(b))
#endif

#endif
