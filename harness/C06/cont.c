/* C06 (one clause): a re-entered continuation resumes with the stack contents it captured.
 * Extracted opcode bodies CALLCC and RESUMECC plus the static sexp_save_stack / sexp_restore_stack
 * of vm.c.  Shapes (number of live slots) are constants of the instance; slot contents symbolic. */
#include "vm/vm.h"
#include "vm_ops.c"

#ifndef NT
#define NT 1
#endif
#define TOP0 (VM_BASE + 4 + NT + 1)          /* frame header, NT temporaries, the receiver of call/cc */
#define SAVED (TOP0 + 4)                     /* call/cc saves top + 4 slots (it pushes 4 frame words) */
struct vecN { struct vm_hdr h; unsigned long length; sexp data[SAVED]; };
struct vec1 { struct vm_hdr h; unsigned long length; sexp data[1]; };
struct proc_t { struct vm_hdr h; sexp bc, vars; char flags; sexp_proc_num_args_t num_args; };
struct bcode_t { struct vm_hdr h; sexp name, literals, source; sexp_uint_t length, max_depth; sexp data[4]; };
static struct vecN saved_vec; static struct vec1 box_vec;
static struct proc_t kont_obj, self_obj, recv_obj, other_obj; static struct bcode_t self_bc, resume_bc, other_bc;
sexp in_slot[TOP0]; sexp in_value; long in_fp;
int vec_allocs;
#ifdef VERIF_GC
#define VM_TRACK(v, n) vm_gc_track_vector(v, n)
#else
#define VM_TRACK(v, n)
#endif

sexp sexp_make_vector_op (sexp ctx, sexp self, sexp_sint_t n, sexp len, sexp dflt) {     /* alloc_plain for the two vectors call/cc makes */
  vec_allocs++;
#ifdef VERIF_GC
  vm_collect(ctx);                 /* C02: a collection at every allocation */
#endif
  if (len == SEXP_ONE) { box_vec.h.tag = SEXP_VECTOR; box_vec.length = 1; box_vec.data[0] = dflt; verif_register(&box_vec); VM_TRACK(&box_vec, 1); return (sexp)&box_vec; }
  __CPROVER_assert(len == sexp_make_fixnum(SAVED), "callcc.saved_length: call/cc saves top + 4 slots");
  saved_vec.h.tag = SEXP_VECTOR; saved_vec.length = SAVED; for (int k = 0; k < SAVED; k++) saved_vec.data[k] = dflt; verif_register(&saved_vec); VM_TRACK(&saved_vec, SAVED > 24 ? 24 : SAVED); return (sexp)&saved_vec;
}
sexp sexp_make_procedure_op (sexp ctx, sexp self, sexp_sint_t n, sexp flags, sexp num_args, sexp bc, sexp vars) {
#ifdef VERIF_GC
  vm_collect(ctx);
#endif
  kont_obj.h.tag = SEXP_PROCEDURE; kont_obj.bc = bc; kont_obj.vars = vars; kont_obj.flags = (char)sexp_unbox_fixnum(flags); kont_obj.num_args = (sexp_proc_num_args_t)sexp_unbox_fixnum(num_args);
  verif_register(&kont_obj); return (sexp)&kont_obj;
}

void h_callcc_resume(void) {
  struct verif_vm S;
  vm_ctx_obj.h.tag = SEXP_CONTEXT; verif_register(&vm_ctx_obj);
  vm_stack_obj.h.tag = SEXP_STACK; vm_stack_obj.length = VM_STACK_SLOTS; verif_register(&vm_stack_obj);
  vm_globals_obj.h.tag = SEXP_VECTOR; vm_globals_obj.length = SEXP_G_NUM_GLOBALS; verif_register(&vm_globals_obj);
  sexp ctx = (sexp)&vm_ctx_obj;
  sexp_context_stack(ctx) = (sexp)&vm_stack_obj; sexp_context_globals(ctx) = (sexp)&vm_globals_obj; sexp_context_saves(ctx) = NULL;
  resume_bc.h.tag = SEXP_BYTECODE; verif_register(&resume_bc); vm_globals_obj.data[SEXP_G_RESUMECC_BYTECODE] = (sexp)&resume_bc;
  self_obj.h.tag = SEXP_PROCEDURE; self_bc.h.tag = SEXP_BYTECODE; self_obj.bc = (sexp)&self_bc; self_obj.vars = SEXP_FALSE; verif_register(&self_obj); verif_register(&self_bc);
  recv_obj.h.tag = SEXP_PROCEDURE; recv_obj.bc = (sexp)&self_bc; recv_obj.num_args = 1; verif_register(&recv_obj);
  other_obj.h.tag = SEXP_PROCEDURE; other_bc.h.tag = SEXP_BYTECODE; other_obj.bc = (sexp)&other_bc; verif_register(&other_obj); verif_register(&other_bc);
  S.ctx = ctx; S.root_thread = ctx; S.fuel = 100; S.stack = vm_stack_obj.data; S.tmp = SEXP_VOID; S.tmp1 = S.tmp2 = SEXP_VOID; S.i = S.j = S.k = 0;
  in_fp = VM_BASE;
  for (int k = 0; k < TOP0 - 1; k++) { in_slot[k] = vm_any_immediate(); S.stack[k] = in_slot[k]; }
  in_slot[TOP0 - 1] = (sexp)&recv_obj; S.stack[TOP0 - 1] = in_slot[TOP0 - 1];
  S.fp = in_fp; S.top = TOP0; S.self = (sexp)&self_obj; S.bc = (sexp)&self_bc; S.cp = SEXP_FALSE;
  S.ip = (unsigned char*)&self_bc.data[1];              /* call/cc was fetched from offset 7; ip points past it */
  /* ---- capture ---- */
  int ex = verif_op_CALLCC(&S);
  OBL(ex == VERIF_EXIT_MAKE_CALL, "callcc.exit: continues into make_call with the receiver");
  OBL(vec_allocs == 2 && kont_obj.vars == (sexp)&box_vec && box_vec.data[0] == (sexp)&saved_vec, "callcc.closure: the continuation closes over the box holding the saved stack");
  for (int k = 0; k < TOP0; k++) OBL(saved_vec.data[k] == in_slot[k], "save_stack.contents: every live slot is saved");
  OBL(saved_vec.data[TOP0] == SEXP_ONE && saved_vec.data[TOP0 + 2] == (sexp)&self_obj && saved_vec.data[TOP0 + 3] == sexp_make_fixnum(in_fp)
      && saved_vec.data[TOP0 + 1] == sexp_make_fixnum(8), "callcc.frame_words: the saved frame words record argument count, return offset, self and fp");
#ifdef VERIF_GC
  OBL(vm_collections == 3, "callcc.collected: a collection ran at each of the three allocations of the capture");
  OBL(!vm_gc_vec_dead[0] && !vm_gc_vec_dead[1] && box_vec.h.tag == SEXP_VECTOR && box_vec.length == 1 && saved_vec.h.tag == SEXP_VECTOR && saved_vec.length == SAVED,
      "gc.capture_live: the continuation box and the saved stack survive the collections during the capture");
#endif
  OBL(S.tmp1 == (sexp)&recv_obj && S.i == 1 && S.stack[S.top - 2] == (sexp)&kont_obj, "callcc.call: the receiver is applied to the continuation");
#ifndef CAPTURE_ONLY
  /* ---- the program runs on: the stack and the registers change arbitrarily ---- */
  for (int k = 0; k < SAVED; k++) S.stack[k] = vm_any_immediate();
  in_value = vm_any_immediate();
  long fp2 = VM_BASE + 3;                                /* the frame of the continuation procedure when it is invoked */
  S.stack[fp2 - 1] = in_value;                           /* its one argument: the value passed to the continuation */
  S.fp = fp2; S.top = fp2 + 4; S.self = (sexp)&other_obj; S.bc = (sexp)&other_bc; S.ip = (unsigned char*)other_bc.data;
  S.cp = kont_obj.vars;                                  /* closure variables of the continuation procedure */
  /* ---- re-entry ---- */
  ex = verif_op_RESUMECC(&S);
  OBL(ex == VERIF_EXIT_NEXT, "resumecc.exit: the continuation resumes");
  for (int k = 0; k < TOP0 - 1; k++) OBL(S.stack[k] == in_slot[k], "resumecc.stack: the stack below the call/cc expression holds what was captured");
  OBL(S.top == TOP0 && S.stack[TOP0 - 1] == in_value, "resumecc.value: the call/cc expression's slot holds the value passed to the continuation");
  OBL(S.fp == in_fp && S.self == (sexp)&self_obj && S.bc == (sexp)&self_bc && S.ip == (unsigned char*)self_bc.data + 8, "resumecc.registers: fp, self and ip are those of the capture point");
#endif
  REACH();
}
