/* C04.2: representation functions of bignum.c, for all inputs (loop-free or loop contract): proved. */
#include "bn.h"
#include "bignum.c"

unsigned long in_hi, in_lo; long in_f;
typedef unsigned __int128 u128; typedef __int128 s128;

#define SETUP_CTX() static struct sexp_struct ctx_obj; sexp ctx = (sexp)&ctx_obj; ctx_obj.tag = SEXP_CONTEXT

void h_from_lsint(void) {                     /* all 2^128 values */
  SETUP_CTX();
  in_hi = nondet_ulong(); in_lo = nondet_ulong();
  s128 x = (s128)(((u128)in_hi << 64) | in_lo);
  sexp r = sexp_make_integer_from_lsint(ctx, x);
  OBL(sexp_fixnump(r) || bn_wf(r), "from_lsint.result: a fixnum or a well-formed bignum");
  OBL(bn_val(r) == (swide)x, "from_lsint.value: V(r) == x");
  OBL(bn_canonical(r), "from_lsint.canonical: fixnum iff x fits a fixnum");
  REACH();
}

void h_from_luint(void) {
  SETUP_CTX();
  in_hi = nondet_ulong(); in_lo = nondet_ulong();
  u128 x = ((u128)in_hi << 64) | in_lo;
  sexp r = sexp_make_unsigned_integer_from_luint(ctx, x);
  OBL(sexp_fixnump(r) || bn_wf(r), "from_luint.result: a fixnum or a well-formed bignum");
  OBL(bn_val(r) == (swide)(uwide)x, "from_luint.value: V(r) == x");
  OBL(bn_canonical(r), "from_luint.canonical: fixnum iff x fits a fixnum");
  REACH();
}

void h_fixnum_to_bignum(void) {
  SETUP_CTX();
  in_f = nondet_long(); ASSUME(in_f >= SEXP_MIN_FIXNUM && in_f <= SEXP_MAX_FIXNUM);
  sexp r = sexp_fixnum_to_bignum(ctx, sexp_make_fixnum(in_f));
  OBL(bn_wf(r) && sexp_bignum_length(r) == 1, "fixnum_to_bignum.result: a one-word bignum");
  OBL(bn_val(r) == (swide)in_f, "fixnum_to_bignum.value: V(r) == f");
  REACH();
}

/* the static kind classifier used by every generic arithmetic entry point: total, for any value */
void h_number_type(void) {
  in_lo = nondet_ulong();
  sexp imm = (sexp)in_lo;
  ASSUME(!sexp_pointerp(imm));
  int t = sexp_number_type(imm);
  OBL(t == (sexp_fixnump(imm) ? 1 : 0), "number_type.immediate: 1 for fixnums, 0 for every other immediate");
  unsigned tag = nondet_uint(); ASSUME(tag < 4096);
  ASSUME(tag != SEXP_FIXNUM);   /* no heap object carries the tag of the immediate fixnum type */
  sexp o = vf_min_obj(tag);
  t = sexp_number_type(o);
  OBL(t == (tag == SEXP_FLONUM ? 2 : tag == SEXP_BIGNUM ? 3 : tag == SEXP_RATIO ? 4 : tag == SEXP_COMPLEX ? 5 : 0),
      "number_type.pointer: kind by tag, 0 for every non-numeric tag (table lookup in bounds)");
  REACH();
}
