/* Contract stubs for the bignum groups. */
#include "bn.h"
/* callee precondition "the argument is a heap bignum": an obligation of the caller; under
 * VERIF_KINDFOLD it also ends symbolic execution of dispatch arms that are infeasible for the
 * instance's operand kinds (the arm's first callee is entered with a non-object) */
#ifdef VERIF_KINDFOLD
#define BN_REQUIRE_OBJ(a, who) do { if (!verif_registered(a)) { __CPROVER_assert(0, "callee.precondition: " who " is only called on heap bignums"); __CPROVER_assume(0); } } while (0)
#else
#define BN_REQUIRE_OBJ(a, who) do { } while (0)
#endif
/* alloc_plain: a fresh zeroed object of exactly the requested size */
sexp sexp_alloc_tagged_aux(sexp ctx, size_t size, sexp_uint_t tag) {
#ifdef VERIF_GC
  bn_collect(ctx);            /* a collection at EVERY allocation: the strongest schedule */
#endif
  sexp r = (sexp) bn_alloc(size);
  r->tag = tag;
  return r;
}
sexp sexp_xtype_exception (sexp ctx, sexp self, const char *msg, sexp x) { return vf_exception(); }
sexp sexp_type_exception (sexp ctx, sexp self, sexp_uint_t type_id, sexp x) { return vf_exception(); }
#ifdef STUB_sexp_bignum_hi
/* contract of sexp_bignum_hi (proved in group `hi`): index+1 of the highest non-zero word, at least 1.
 * For the operands of the instance the significant length is a shape constant: assert it, return it. */
sexp_uint_t sexp_bignum_hi (sexp a) {
  BN_REQUIRE_OBJ(a, "sexp_bignum_hi");
  sexp_uint_t i = sexp_bignum_length(a) - 1;
  while ((i > 0) && ! sexp_bignum_data(a)[i]) i--;
  for (int k = 0; k < bn_nknown; k++)
    if (a == bn_known_p[k]) {
      __CPROVER_assert(i + 1 == bn_known_h[k], "hi.shape: operand has the significant length of the instance");
      return bn_known_h[k];
    }
  return i + 1;
}
#endif
#ifdef STUB_sexp_copy_bignum
/* contract of sexp_copy_bignum (the real body, which uses memset/memmove, is checked against
 * exactly this in group copy_bignum): reuse dst when it is long enough, else a fresh object of
 * len words; sign copied; the first min(length(a), len) words copied, the rest zero. */
sexp sexp_copy_bignum (sexp ctx, sexp dst, sexp a, sexp_uint_t len0) {
  BN_REQUIRE_OBJ(a, "sexp_copy_bignum");
  sexp_uint_t len = (len0 > 0) ? len0 : sexp_bignum_length(a), n, k;
  if (! dst || sexp_bignum_length(dst) < len) {
    dst = sexp_alloc_tagged_aux(ctx, sexp_sizeof(bignum) + len*sizeof(sexp_uint_t), SEXP_BIGNUM);
    sexp_bignum_length(dst) = len;
  }
  n = sexp_bignum_length(a) < len ? sexp_bignum_length(a) : len;
  sexp_bignum_sign(dst) = sexp_bignum_sign(a);
  for (k = 0; k < sexp_bignum_length(dst) && k < 9; k++)
    sexp_bignum_data(dst)[k] = k < n ? sexp_bignum_data(a)[k] : 0;
  return dst;
}
#endif
#ifdef STUB_sexp_ratio_add
/* arms of the generic dispatch that exact-integer operands must never reach:
 * the stub is an obligation ("not reached"), which also prunes symbolic execution */
#define UNREACHED(name) __CPROVER_assert(0, "dispatch.exact_only: exact integer operands never reach " name)
sexp sexp_ratio_add (sexp ctx, sexp a, sexp b) { UNREACHED("sexp_ratio_add"); return SEXP_VOID; }
sexp sexp_complex_add (sexp ctx, sexp a, sexp b) { UNREACHED("sexp_complex_add"); return SEXP_VOID; }
sexp sexp_complex_sub (sexp ctx, sexp a, sexp b) { UNREACHED("sexp_complex_sub"); return SEXP_VOID; }
double sexp_ratio_to_double (sexp ctx, sexp rat) { UNREACHED("sexp_ratio_to_double"); return 0; }
double sexp_bignum_to_double (sexp a) { UNREACHED("sexp_bignum_to_double"); return 0; }
sexp sexp_make_ratio (sexp ctx, sexp num, sexp den) { UNREACHED("sexp_make_ratio"); return SEXP_VOID; }
sexp sexp_make_complex (sexp ctx, sexp real, sexp image) { UNREACHED("sexp_make_complex"); return SEXP_VOID; }
sexp sexp_make_flonum (sexp ctx, double f) { UNREACHED("sexp_make_flonum"); return SEXP_VOID; }
#endif
#ifdef STUB_sexp_number_type
/* contract of the static sexp_number_type (checked on its own in group number_type): 0 = not a
 * number, 1 fixnum, 2 flonum, 3 bignum, 4 ratio, 5 complex.  The kinds of the operands are shape
 * constants of the instance, given per call ordinal (assert-then-assume): the harness lists the
 * expected kind of each call in order; calls beyond the list get the real computation. */
extern int bn_nt_expect[8], bn_nt_n, bn_nt_calls;
int sexp_number_type (sexp a) {
  int r = sexp_pointerp(a) ? (sexp_pointer_tag(a) == SEXP_FLONUM ? 2 : sexp_pointer_tag(a) == SEXP_BIGNUM ? 3 :
                              sexp_pointer_tag(a) == SEXP_RATIO ? 4 : sexp_pointer_tag(a) == SEXP_COMPLEX ? 5 : 0)
                           : sexp_fixnump(a);
  int k = bn_nt_calls++;
  if (k < bn_nt_n) {
    __CPROVER_assert(r == bn_nt_expect[k], "number_type.shape: operand kind is the kind of the instance");
    return bn_nt_expect[k];
  }
  return r;
}
#endif
#ifdef STUB_sexp_bignum_fxadd
/* contracts of sexp_bignum_fxadd / sexp_bignum_fxsub (the real bodies are checked against exactly
 * these clauses in groups fxadd / fxsub): magnitude arithmetic with a machine word, in place when
 * the result fits the allocated length, else a fresh object one word longer. */
static void bn_store(sexp x, uwide m) {
  for (unsigned long k = 0; k < sexp_bignum_length(x) && k < 9; k++)
    sexp_bignum_data(x)[k] = (unsigned long)(m >> (64 * k));
}
sexp sexp_bignum_fxadd (sexp ctx, sexp a, sexp_uint_t b) {
  BN_REQUIRE_OBJ(a, "sexp_bignum_fxadd");
  uwide m = bn_mag(a) + b;
  unsigned long len = sexp_bignum_length(a);
  if ((m >> (64 * len)) != 0) {
    sexp r = sexp_alloc_tagged_aux(ctx, sexp_sizeof(bignum) + (len + 1) * sizeof(sexp_uint_t), SEXP_BIGNUM);
    sexp_bignum_length(r) = len + 1; sexp_bignum_sign(r) = sexp_bignum_sign(a);
    bn_store(r, m);
    return r;
  }
  bn_store(a, m);
  return a;
}
sexp sexp_bignum_fxsub (sexp ctx, sexp a, sexp_uint_t b) {
  BN_REQUIRE_OBJ(a, "sexp_bignum_fxsub");
  swide v = (swide)bn_mag(a) - (swide)b;
  if (v < 0) { sexp_bignum_sign(a) = -sexp_bignum_sign(a); v = -v; }
  bn_store(a, (uwide)v);
  return a;
}
#endif
#ifdef STUB_sexp_bignum_bit_op
sexp sexp_bignum_bit_op (sexp ctx, sexp x, sexp y, int op) { __CPROVER_assert(0, "dispatch.fixnum_only: two fixnum operands never reach the bignum arm"); __CPROVER_assume(0); return x; }
#endif
#ifdef STUB_HANDOVER_sexp_bignum_hi
/* hand-over point of the fixnum path of arithmetic-shift to its bignum path: ends the path */
sexp_uint_t sexp_bignum_hi (sexp a) { __CPROVER_assume(0); return 1; }
#endif
