/* C04.2: functions that scan a bignum of ANY length: loop contracts (unbounded).
 * sexp_bignum_hi: contract used by every word-arithmetic group. */
#include "bn.h"
#include "bignum.c"

unsigned long in_len; unsigned long in_k;

void h_hi(void) {
  in_len = nondet_ulong();
  ASSUME(in_len >= 1 && in_len <= (1UL << 28));            /* machine-size cap: 2^28 words */
  sexp a = (sexp) malloc(sexp_sizeof(bignum) + in_len * sizeof(sexp_uint_t));
  ASSUME(a != NULL);
  a->tag = SEXP_BIGNUM; sexp_bignum_length(a) = in_len;
  in_k = nondet_ulong();                                       /* ghost index instead of a quantifier, chosen before the call */
  sexp_uint_t h = sexp_bignum_hi(a);
  OBL(h >= 1 && h <= in_len, "hi.range: 1 <= hi <= length");
  ASSUME(in_k >= h && in_k < in_len);
  OBL(sexp_bignum_data(a)[in_k] == 0, "hi.zeros_above: every word at or above hi is zero");
  OBL(h == 1 || sexp_bignum_data(a)[h - 1] != 0, "hi.top_nonzero: word hi-1 is non-zero unless hi == 1");
  REACH();
}
