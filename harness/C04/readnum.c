/* C04.3: the digit-accumulation loop of sexp_read_number (sexp.c), the place where a
 * decimal / hex / octal / binary literal either stays a fixnum or is handed to
 * sexp_read_bignum.  The loop text is cut out of /repo/sexp.c on every run
 * (groups/C04.py:extract_readnum, must-fire rules) into readnum_loop.inc and
 * woven in here unchanged; what the extraction drops: everything in
 * sexp_read_number before and after that loop (prefix parsing, '.', '/', exponent
 * and complex suffixes).  The proof is the inductive step of the loop invariant
 *     0 <= val <= SEXP_MAX_FIXNUM  &&  val == V        (V: exact value of the digits consumed so far)
 * from an arbitrary invariant state, for every character: one iteration either
 * leaves the loop with val untouched, continues with val == V*base + digit exactly,
 * or hands (val, sign, base) to sexp_read_bignum with the current character
 * pushed back (nothing consumed is lost).  The initial state val == 0 (or 1 for
 * the 'i' shortcut, which does not enter the loop) satisfies the invariant trivially. */
#include "common.h"
#include "sexp.c"

long in_val; int in_c, in_base, in_neg;
typedef __int128 s128;

static int st_iter;            /* increments executed */
static long st_val_after;      /* val when the increment expression ran */
static int st_pushed = -1, st_handoff, st_ho_base;
static long st_ho_val, st_ho_sign;
static long *st_valp;

static int vf_next_char(void) { st_iter++; st_val_after = *st_valp; return 0; /* not a hex digit: loop ends */ }
static sexp vf_read_bignum(sexp_uint_t init, signed char sign, sexp_uint_t base) {
  st_handoff++; st_ho_val = (long)init; st_ho_sign = sign; st_ho_base = (int)base; return SEXP_VOID;
}
/* libc isxdigit (a locale table behind __ctype_b_loc) is replaced by its C-locale definition */
static int verif_isxdigit(int c) { return (c >= '0' && c <= '9') || (c >= 'a' && c <= 'f') || (c >= 'A' && c <= 'F'); }
#undef sexp_isxdigit
#define sexp_isxdigit(c) verif_isxdigit(c)
#undef sexp_read_char
#define sexp_read_char(ctx, in) vf_next_char()
#undef sexp_push_char
#define sexp_push_char(ctx, ch, in) (st_pushed = (ch))
#define sexp_read_bignum(ctx, in, init, sign, base) vf_read_bignum(init, sign, base)

static sexp digit_loop(sexp ctx, sexp in, int base, int negativep, sexp_sint_t val0, int c0, sexp_sint_t *valout) {
  sexp_sint_t val = val0, tmp = -1;
  int c = c0, digit;
  st_valp = &val;
#include "readnum_loop.inc"
  *valout = val;
  return NULL;
}

void h_readnum_step(void) {
  in_val = nondet_long(); in_c = nondet_int(); in_neg = nondet_bool();
#ifdef BASE
  in_base = BASE;
#else
  in_base = nondet_int(); ASSUME(in_base >= 2 && in_base <= 36);
#endif
  ASSUME(in_val >= 0 && in_val <= SEXP_MAX_FIXNUM);          /* invariant on entry; ghost V == in_val */
  ASSUME(in_c >= -1 && in_c <= 255);                 /* sexp_read_char: a byte or EOF */
  sexp_sint_t out = -7;
  sexp r = digit_loop(NULL, NULL, in_base, in_neg, in_val, in_c, &out);
  int d = digit_value(in_c);
  int isdig = sexp_isxdigit(in_c) && d >= 0 && d < in_base;
  s128 exact = (s128)in_val * in_base + d;
  if (!isdig) {
    OBL(r == NULL && st_iter == 0 && st_handoff == 0 && out == in_val && st_pushed == -1,
        "readnum.stop: a non-digit ends the loop with val untouched and nothing consumed");
  } else if (r == NULL) {
    OBL(st_iter == 1 && st_handoff == 0, "readnum.step: exactly one character consumed");
    OBL((s128)st_val_after == exact, "readnum.value: val == V*base + digit exactly (no wrap)");
    OBL(st_val_after >= 0 && st_val_after <= SEXP_MAX_FIXNUM, "readnum.invariant: val stays in the fixnum range");
    OBL(out == st_val_after, "readnum.exit: loop exit keeps val");
  } else {
    OBL(st_handoff == 1 && st_iter == 0, "readnum.handoff: bignum reader entered once, no further character consumed");
    OBL(st_ho_val == in_val && st_ho_base == in_base && st_ho_sign == (in_neg ? -1 : 1),
        "readnum.handoff_state: digits so far, sign and base passed on unchanged");
    OBL(st_pushed == in_c, "readnum.handoff_char: the current digit is pushed back, not dropped");
  }
  /* the fixnum path must remain reachable (a loop that always hands over would be vacuous) */
  if (isdig && r == NULL) __CPROVER_assert(0, "REACH: fixnum path of the digit loop");
  if (isdig && r != NULL) __CPROVER_assert(0, "REACH: hand-over to the bignum reader");
  REACH();
}
