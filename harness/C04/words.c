/* C04.3: word arithmetic of bignum.c against the mathematical value
 *   V(x) = sign * sum data[k]*2^(64k)      (a 704-bit bit-vector, harness/bn.h)
 * Shape-enumerated: per instance the allocated lengths LA, LB and the
 * significant lengths HA, HB of the operands are constants; all significant
 * words and both signs are symbolic.  sexp_bignum_hi is replaced by its
 * contract (asserts the shape, returns the constant) and proved separately. */
#include "bn.h"
#include "bignum.c"

unsigned long in_a[8], in_b[8], in_w;
long in_f, in_g;
int in_sa, in_sb;

#define CAT2(a,b) a##b
#define CAT(a,b) CAT2(a,b)

#define SETUP_CTX() static struct sexp_struct ctx_obj; sexp ctx = (sexp)&ctx_obj; ctx_obj.tag = SEXP_CONTEXT

#define SETUP_A() \
  static struct CAT(bn_,LA) a_obj; sexp a = (sexp)&a_obj; \
  in_sa = nondet_bool() ? 1 : -1; \
  a_obj.tag = SEXP_BIGNUM; a_obj.length = LA; a_obj.sign = in_sa; \
  for (int i = 0; i < HA; i++) { in_a[i] = nondet_ulong(); a_obj.data[i] = in_a[i]; } \
  if (HA > 1) ASSUME(in_a[HA-1] != 0); \
  bn_known(a, HA)

#define SETUP_B() \
  static struct CAT(bn_,LB) b_obj; sexp b = (sexp)&b_obj; \
  in_sb = nondet_bool() ? 1 : -1; \
  b_obj.tag = SEXP_BIGNUM; b_obj.length = LB; b_obj.sign = in_sb; \
  for (int i = 0; i < HB; i++) { in_b[i] = nondet_ulong(); b_obj.data[i] = in_b[i]; } \
  if (HB > 1) ASSUME(in_b[HB-1] != 0); \
  bn_known(b, HB)

#define IS_BIG(c) (sexp_pointerp(c) && sexp_pointer_tag(c) == SEXP_BIGNUM)
#define DONE() OBL(!bn_pool_exhausted, "alloc.bound: allocation pool sufficed"); OBL(sexp_context_saves(ctx) == NULL, "gc.release: preserved-variable chain restored on return"); REACH()

void h_add_digits(void) {
  SETUP_CTX(); SETUP_A(); SETUP_B();
  uwide ma = bn_mag(a), mb = bn_mag(b);
  sexp c = sexp_bignum_add_digits(ctx, NULL, a, b);
  OBL(IS_BIG(c), "add_digits.result: a bignum");
  OBL(bn_mag(c) == ma + mb, "add_digits.value: |c| == |a| + |b|");
  OBL(bn_mag(a) == ma && bn_mag(b) == mb, "add_digits.frame: operands unchanged (dst NULL)");
  DONE();
}

void h_add_digits_inplace(void) {      /* dst == a, as sexp_bignum_mul and sexp_double_to_bignum call it */
  SETUP_CTX(); SETUP_A(); SETUP_B();
  uwide ma = bn_mag(a), mb = bn_mag(b);
  sexp c = sexp_bignum_add_digits(ctx, a, a, b);
  OBL(IS_BIG(c), "add_digits_inplace.result: a bignum");
  OBL(bn_mag(c) == ma + mb, "add_digits_inplace.value: |c| == |a| + |b| (dst == a)");
  OBL(bn_mag(b) == mb, "add_digits_inplace.frame: b unchanged");
  DONE();
}

void h_sub_digits(void) {
  SETUP_CTX(); SETUP_A(); SETUP_B();
  uwide ma = bn_mag(a), mb = bn_mag(b);
  sexp c = sexp_bignum_sub_digits(ctx, NULL, a, b);
  OBL(IS_BIG(c), "sub_digits.result: a bignum");
  OBL(bn_mag(c) == (ma >= mb ? ma - mb : mb - ma), "sub_digits.value: |c| == | |a| - |b| |");
  OBL(bn_mag(a) == ma && bn_mag(b) == mb, "sub_digits.frame: operands unchanged (dst NULL)");
  DONE();
}

void h_bignum_add(void) {
  SETUP_CTX(); SETUP_A(); SETUP_B();
  swide va = bn_val(a), vb = bn_val(b);
  sexp c = sexp_bignum_add(ctx, NULL, a, b);
  OBL(IS_BIG(c) && (sexp_bignum_sign(c) == 1 || sexp_bignum_sign(c) == -1), "bignum_add.result: a bignum with sign +-1");
  OBL(bn_val(c) == va + vb, "bignum_add.value: V(c) == V(a) + V(b)");
  DONE();
}

void h_bignum_sub(void) {
  SETUP_CTX(); SETUP_A(); SETUP_B();
  swide va = bn_val(a), vb = bn_val(b);
  sexp c = sexp_bignum_sub(ctx, NULL, a, b);
  OBL(IS_BIG(c) && (sexp_bignum_sign(c) == 1 || sexp_bignum_sign(c) == -1), "bignum_sub.result: a bignum with sign +-1");
  OBL(bn_val(c) == va - vb, "bignum_sub.value: V(c) == V(a) - V(b)");
  DONE();
}

void h_compare(void) {
  SETUP_CTX(); SETUP_A(); SETUP_B();
  swide va = bn_val(a), vb = bn_val(b);
  uwide ma = bn_mag(a), mb = bn_mag(b);
  sexp_sint_t r = sexp_bignum_compare_abs(a, b);
  OBL((r < 0) == (ma < mb) && (r == 0) == (ma == mb), "compare_abs.sign: sign of |a| - |b|");
  /* zero is never a bignum operand of sexp_bignum_compare (normalised to fixnum 0) */
  ASSUME(ma != 0 && mb != 0);
  r = sexp_bignum_compare(a, b);
  OBL((r < 0) == (va < vb) && (r == 0) == (va == vb), "compare.sign: sign of V(a) - V(b)");
  (void)ctx;
  REACH();
}

void h_fxadd(void) {
  SETUP_CTX(); SETUP_A();
  in_w = nondet_ulong();
  uwide ma = bn_mag(a);
  sexp c = sexp_bignum_fxadd(ctx, a, in_w);
  OBL(IS_BIG(c), "fxadd.result: a bignum");
  OBL(bn_mag(c) == ma + in_w, "fxadd.value: |c| == |a| + w");
  OBL(sexp_bignum_sign(c) == in_sa, "fxadd.sign: sign kept");
  DONE();
}

void h_fxsub(void) {
  SETUP_CTX(); SETUP_A();
  in_w = nondet_ulong();
  swide ma = (swide)bn_mag(a);
  sexp c = sexp_bignum_fxsub(ctx, a, in_w);
  OBL(IS_BIG(c), "fxsub.result: a bignum");
  OBL(bn_val(c) == (swide)in_sa * (ma - (swide)in_w), "fxsub.value: V(c) == sign(a) * (|a| - w)");
  DONE();
}

void h_add_fixnum(void) {
  SETUP_CTX(); SETUP_A();
  in_f = nondet_long(); ASSUME(in_f >= SEXP_MIN_FIXNUM && in_f <= SEXP_MAX_FIXNUM);
  swide va = bn_val(a);
  uwide ma = bn_mag(a);
  sexp c = sexp_bignum_add_fixnum(ctx, a, sexp_make_fixnum(in_f));
  OBL(IS_BIG(c), "add_fixnum.result: a bignum");
  OBL(bn_val(c) == va + (swide)in_f, "add_fixnum.value: V(c) == V(a) + f");
  OBL(bn_mag(a) == ma, "add_fixnum.frame: a unchanged");
  DONE();
}

/* |a| * w as the sum of the 64x64->128 word products a[k]*w (word product: native, or the
 * shared uninterpreted function under -DVERIF_UF_MUL) */
static uwide spec_mul_word(sexp a, unsigned long w) {
  uwide r = 0;
  for (unsigned long k = 0; k < sexp_bignum_length(a) && k < 8; k++)
    r += (uwide)luint_mul_uint(luint_from_uint(sexp_bignum_data(a)[k]), w) << (64 * k);
  return r;
}

void h_fxmul(void) {
  SETUP_CTX(); SETUP_A();
  in_w = nondet_ulong();
  uwide ma = bn_mag(a);
  uwide want = spec_mul_word(a, in_w);
  sexp c = sexp_bignum_fxmul(ctx, NULL, a, in_w, 0);
  OBL(IS_BIG(c), "fxmul.result: a bignum");
  OBL(bn_mag(c) == want, "fxmul.value: |c| == sum_k a[k]*w*2^(64k)");
  OBL(bn_mag(a) == ma, "fxmul.frame: a unchanged (d NULL)");
  DONE();
}

void h_normalize(void) {
  SETUP_CTX(); SETUP_A();
  swide va = bn_val(a);
  sexp r = sexp_bignum_normalize(a);
  OBL(r == a || sexp_fixnump(r), "normalize.result: the bignum itself or a fixnum");
  OBL(bn_val(r) == va, "normalize.value: value preserved");
  OBL(bn_canonical(r), "normalize.canonical: fixnum iff the value fits a fixnum");
  (void)ctx;
  REACH();
}

#ifndef KA
#define KA 1
#endif
#ifndef KB
#define KB 1
#endif
/* generic arithmetic entry points on exact integers: value and canonical form */
static sexp mk_operand(int kind, sexp big, long f) { return kind ? big : sexp_make_fixnum(f); }

void h_sexp_add(void) {
  SETUP_CTX(); SETUP_A(); SETUP_B();
  in_f = nondet_long(); ASSUME(in_f >= SEXP_MIN_FIXNUM && in_f <= SEXP_MAX_FIXNUM);
  in_g = nondet_long(); ASSUME(in_g >= SEXP_MIN_FIXNUM && in_g <= SEXP_MAX_FIXNUM);
  /* bignum operands of the generic entry points are normalised: not representable as fixnums */
  ASSUME(!sexp_fixnump(sexp_bignum_normalize(a)) && !sexp_fixnump(sexp_bignum_normalize(b)));
  sexp x = mk_operand(KA, a, in_f), y = mk_operand(KB, b, in_g);
  swide vx = bn_val(x), vy = bn_val(y);
  /* kinds seen by sexp_number_type, in call order; a fixnum+fixnum overflow re-enters with (bignum, fixnum) */
  bn_nt_expect[0] = KA ? 3 : 1; bn_nt_expect[1] = KB ? 3 : 1; bn_nt_expect[2] = 3; bn_nt_expect[3] = 1; bn_nt_n = (KA || KB) ? 2 : 4;
  sexp r = sexp_add(ctx, x, y);
  OBL(sexp_fixnump(r) || IS_BIG(r), "sexp_add.result: an exact integer");
  OBL(bn_val(r) == vx + vy, "sexp_add.value: V(r) == V(x) + V(y)");
  OBL(bn_canonical(r), "sexp_add.canonical: fixnum iff it fits");
  DONE();
}

void h_sexp_sub(void) {
  SETUP_CTX(); SETUP_A(); SETUP_B();
  in_f = nondet_long(); ASSUME(in_f >= SEXP_MIN_FIXNUM && in_f <= SEXP_MAX_FIXNUM);
  in_g = nondet_long(); ASSUME(in_g >= SEXP_MIN_FIXNUM && in_g <= SEXP_MAX_FIXNUM);
  ASSUME(!sexp_fixnump(sexp_bignum_normalize(a)) && !sexp_fixnump(sexp_bignum_normalize(b)));
  sexp x = mk_operand(KA, a, in_f), y = mk_operand(KB, b, in_g);
  swide vx = bn_val(x), vy = bn_val(y);
  bn_nt_expect[0] = KA ? 3 : 1; bn_nt_expect[1] = KB ? 3 : 1; bn_nt_expect[2] = 3; bn_nt_expect[3] = 1; bn_nt_n = (KA || KB) ? 2 : 4;
  sexp r = sexp_sub(ctx, x, y);
  OBL(sexp_fixnump(r) || IS_BIG(r), "sexp_sub.result: an exact integer");
  OBL(bn_val(r) == vx - vy, "sexp_sub.value: V(r) == V(x) - V(y)");
  OBL(bn_canonical(r), "sexp_sub.canonical: fixnum iff it fits");
  DONE();
}

/* quotient / remainder of a fixnum by a (normalised) bignum: truncated division x = q*y + rem, |rem| < |y|, rem has the sign of x.
 * |x| <= 2^62 <= |y|, so q is -1, 0 or 1 and the defining relation needs no wide division. */
static swide wabs(swide v) { return v < 0 ? -v : v; }
static void fixbig_operands(sexp *x, sexp *y, sexp b) {
  in_f = nondet_long(); ASSUME(in_f >= SEXP_MIN_FIXNUM && in_f <= SEXP_MAX_FIXNUM);
  ASSUME(!sexp_fixnump(sexp_bignum_normalize(b)));
  *x = sexp_make_fixnum(in_f); *y = b;
  bn_nt_expect[0] = 1; bn_nt_expect[1] = 3; bn_nt_n = 2;
}
void h_sexp_quotient_fixbig(void) {
  SETUP_CTX(); SETUP_A(); SETUP_B();
  sexp x, y; fixbig_operands(&x, &y, b);
  swide vx = bn_val(x), vy = bn_val(y);
  sexp r = sexp_quotient(ctx, x, y);
  OBL(sexp_fixnump(r) && sexp_unbox_fixnum(r) >= -1 && sexp_unbox_fixnum(r) <= 1, "sexp_quotient.result: a fixnum in -1..1 (|x| <= |y|)");
  long q = sexp_unbox_fixnum(r);
  swide rem = q == 0 ? vx : q == 1 ? vx - vy : vx + vy;
  OBL(wabs(rem) < wabs(vy) && (rem == 0 || (rem < 0) == (vx < 0)), "sexp_quotient.value: truncated division, x = q*y + rem with |rem| < |y| and rem of the sign of x");
  DONE();
}
void h_sexp_remainder_fixbig(void) {
  SETUP_CTX(); SETUP_A(); SETUP_B();
  sexp x, y; fixbig_operands(&x, &y, b);
  swide vx = bn_val(x), vy = bn_val(y);
  sexp r = sexp_remainder(ctx, x, y);
  OBL(sexp_fixnump(r) || IS_BIG(r), "sexp_remainder.result: an exact integer");
  swide rem = bn_val(r);
  OBL(wabs(rem) < wabs(vy) && (rem == 0 || (rem < 0) == (vx < 0)), "sexp_remainder.range: |rem| < |y|, rem of the sign of x");
  OBL(rem == vx || rem == vx - vy || rem == vx + vy, "sexp_remainder.value: x - rem is a multiple q*y of y (q in -1..1 because |x| <= |y|)");
  OBL(bn_canonical(r), "sexp_remainder.canonical: fixnum iff it fits");
  DONE();
}

/* the real sexp_copy_bignum (memset + memmove) against the contract the other groups use */
#ifndef LEN0
#define LEN0 0
#endif
#ifndef DSTMODE
#define DSTMODE 0      /* 0: NULL, 1: dst = b (LB words) */
#endif
void h_copy_bignum(void) {
  SETUP_CTX(); SETUP_A(); SETUP_B();
  uwide ma = bn_mag(a);
  sexp dst = DSTMODE ? b : NULL;
  sexp c = sexp_copy_bignum(ctx, dst, a, LEN0);
  unsigned long len = LEN0 > 0 ? LEN0 : LA;
  OBL(IS_BIG(c), "copy_bignum.result: a bignum");
  OBL((DSTMODE && LB >= len) ? (c == b) : (c != a && c != b && sexp_bignum_length(c) == len), "copy_bignum.reuse: dst reused iff it is long enough, else a fresh object of len words");
  OBL(sexp_bignum_sign(c) == in_sa, "copy_bignum.sign: sign copied");
  uwide want = len >= LA ? ma : (ma & (((uwide)1 << (64 * len)) - 1));
  OBL(bn_mag(c) == want, "copy_bignum.value: first min(length(a), len) words copied, the rest zero");
  OBL(bn_mag(a) == ma, "copy_bignum.frame: source unchanged");
  DONE();
}
