#!/bin/sh
# Offline set-up: nothing to build ahead of time - every check regenerates its
# shim headers and harness binaries from /repo's working tree. Just sanity-check the tools.
set -e
cd "$(dirname "$0")"
for t in cbmc goto-cc goto-instrument gcc python3; do command -v $t >/dev/null || { echo "missing $t"; exit 1; }; done
mkdir -p build evidence replay
python3 -c "import sys; sys.path.insert(0,'.'); from vlib import core; core.prepare(); print('prepare ok')"
