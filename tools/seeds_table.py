#!/usr/bin/env python3
"""seeded/_results/*.json (written by tools/run_seeds.py) -> seeded/RESULTS.md, meta.json detected_by, and the table in DESIGN.md"""
import json, glob, os, re
HERE = os.path.dirname(os.path.dirname(os.path.abspath(__file__)))
rows = []
for d in sorted(glob.glob(os.path.join(HERE, "seeded", "C*-m*"))):
    sid = os.path.basename(d)
    meta = json.load(open(os.path.join(d, "meta.json")))
    rp = os.path.join(HERE, "seeded", "_results", sid + ".json")
    res = json.load(open(rp)) if os.path.exists(rp) else None
    if res is None:
        status, by = "not run", ""
    elif not res.get("applies"):
        status, by = "obsolete (does not apply: the code it changes was rewritten by a fix)", ""
    elif res.get("detected"):
        hit = [r for r in res["runs"] if r.get("exit") == 1]
        status = "detected"
        by = "; ".join("%s: %s%s" % (r["check"], ", ".join(re.sub(r"\[.*?\]", "", v) for v in sorted(set(re.sub(r"\[.*?\]", "", x) for x in r["violated"]))[:4]),
                                    "" if r["n_without_native_replay"] == r["n_violation_lines"] else " (replayed natively)") for r in hit)
    else:
        ran = [r["check"] for r in res["runs"] if "exit" in r]
        status = "missed" if ran else "property not claimed"
        by = ("ran " + ", ".join(ran)) if ran else ""
    meta["detected_by"] = (status + (": " + by if by else ""))
    json.dump(meta, open(os.path.join(d, "meta.json"), "w"), indent=1)
    rows.append((sid, ", ".join(meta.get("files_touched", [])), meta.get("needs_to_manifest", "")[:150].replace("|", "/"), status, by))
out = ["| seed | file | needs | result | obligations that fail |", "|---|---|---|---|---|"]
for r in rows:
    out.append("| %s | %s | %s | %s | %s |" % r)
n_det = sum(1 for r in rows if r[3] == "detected"); n_miss = sum(1 for r in rows if r[3] == "missed"); n_na = sum(1 for r in rows if r[3] == "property not claimed"); n_obs = sum(1 for r in rows if r[3].startswith("obsolete"))
summary = "%d seeded changes: %d detected, %d missed, %d target a property that is not claimed (not applicable), %d obsolete." % (len(rows), n_det, n_miss, n_na, n_obs)
open(os.path.join(HERE, "seeded", "RESULTS.md"), "w").write("# Seeded changes vs. checks (quick tier)\n\n" + summary + "\n\nEach row is the result of tools/run_seeds.py at the commit of /verif at which that seed was last run (seeded/_results/<seed>.json); seeds were re-run when a group was added because of them. All patches except the obsolete C17-m1 still apply to the final /repo HEAD.\n\n" + "\n".join(out) + "\n")
print(summary)
