#!/usr/bin/env python3
"""Run the checks against every seeded change (seeded/<id>/patch.diff) on a scratch copy of the repository.
usage: VERIF_REPO=<scratch repo> tools/run_seeds.py [out_dir] [seed ...]
For each seed: git apply, run the check of its property (quick tier; related properties too when the first misses it),
record exit code and violated obligations in <out_dir>/<seed>.json, git checkout -- . straight afterwards."""
import json, os, re, subprocess, sys, glob
HERE = os.path.dirname(os.path.dirname(os.path.abspath(__file__)))
REPO = os.environ.get("VERIF_REPO", "/repo")
out_dir = sys.argv[1] if len(sys.argv) > 1 else os.path.join(HERE, "seeded", "_results")
only = sys.argv[2:]
os.makedirs(out_dir, exist_ok=True)
claimed = set(c["property_id"] for c in json.load(open(os.path.join(HERE, "MANIFEST.json")))["checks"])
RELATED = {"C01": ["C02"], "C06": ["C02", "C05"], "C10": ["C02"], "C02": ["C10", "C04"], "C03": ["C05", "C01"], "C16": ["C10"], "C09": ["C04"], "C04": ["C09", "C17"], "C05": ["C01"], "C13": [], "C07": [], "C14": [], "C20": []}
for d in sorted(glob.glob(os.path.join(HERE, "seeded", "C*-m*"))):
    sid = os.path.basename(d)
    if only and sid not in only:
        continue
    patch = os.path.join(d, "patch.diff")
    prop = sid.split("-")[0]
    res = {"seed": sid, "property": prop, "runs": []}
    subprocess.run(["git", "-C", REPO, "checkout", "--", "."])
    ap = subprocess.run(["git", "-C", REPO, "apply", patch], stderr=subprocess.PIPE)
    if ap.returncode != 0:
        res["applies"] = False; res["apply_error"] = ap.stderr.decode()[-300:]
    else:
        res["applies"] = True
        detected = False
        for p in [prop] + RELATED.get(prop, []):
            if p not in claimed:
                res["runs"].append({"check": p, "status": "not claimed (not applicable)"}); continue
            if detected and p != prop:
                break
            r = subprocess.run([os.path.join(HERE, "check"), p, "--tier", "quick", "--no-evidence"], stdout=subprocess.PIPE, stderr=subprocess.STDOUT, cwd=HERE, env=dict(os.environ, VERIF_REPO=REPO))
            out = r.stdout.decode(errors="replace")
            viol = sorted(set(re.findall(r"obligation=(\S+)", out)))
            replayed = sorted(set(m for m in re.findall(r"VIOLATION property=\S+ replay=\S+ obligation=(\S+)(?! no-failing)", out)))
            nofail = len(re.findall(r"no-failing-input-found", out))
            undec = re.findall(r"UNDECIDED \S+ (\S+):", out)[:5]
            res["runs"].append({"check": p, "exit": r.returncode, "violated": viol[:12], "n_violation_lines": len(re.findall(r"^VIOLATION", out, re.M)), "n_without_native_replay": nofail, "undecided": undec, "summary": out.strip().splitlines()[-1][:300] if out.strip() else ""})
            if r.returncode == 1:
                detected = True
        res["detected"] = detected
    subprocess.run(["git", "-C", REPO, "checkout", "--", "."])
    json.dump(res, open(os.path.join(out_dir, sid + ".json"), "w"), indent=1)
    print(sid, "applies" if res.get("applies") else "DOES NOT APPLY", "detected" if res.get("detected") else "missed", [(x["check"], x.get("exit")) for x in res["runs"]], flush=True)
