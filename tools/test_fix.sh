#!/bin/bash
# test_fix.sh : build /repo's HEAD + uncommitted working-tree diff in a scratch worktree and run the test suite
set -e
WT=/tmp/wt_fixtest
git -C /repo diff > /tmp/fixtest.diff
git -C /repo worktree remove --force $WT 2>/dev/null || true
git -C /repo worktree add -q --detach $WT HEAD
cd $WT; [ -s /tmp/fixtest.diff ] && git apply /tmp/fixtest.diff
cmake -G Ninja -B _build -DCMAKE_BUILD_TYPE=RelWithDebInfo >/dev/null 2>&1 && cmake --build _build 2>&1 | tail -1
ctest --test-dir _build -j8 --timeout 900 2>&1 | grep -E "tests passed|Failed|SEGFAULT|\*\*\*"
if [ -n "$1" ]; then (cd _build && LD_LIBRARY_PATH=. CHIBI_MODULE_PATH=../lib:lib CHIBI_IGNORE_SYSTEM_PATH=1 ./chibi-scheme "$@"); fi
cd /; git -C /repo worktree remove --force $WT
