#!/bin/bash
# validate every thorough-tier command on the unchanged tree (results are not evidence; re-run in /verif before committing evidence)
for id in C08 C18 C06 C09 C19 C02 C10 C05 C15 C16 C01 C12 C17 C04 C11; do
  start=$(date +%s)
  ./check $id --tier thorough --no-evidence > thorough_$id.log 2>&1
  echo "$id exit=$? wall=$(( $(date +%s) - start ))s $(tail -1 thorough_$id.log | cut -c1-160)"
done
