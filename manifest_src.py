TECH = "CBMC code contracts on the real C functions (goto-instrument --dfcc / harness-attached contracts, SAT back end)"
CLAIMS = {
 "C08": {"category": "proof", "technique": TECH + "; loop-free full-domain harness per UTF-8 width class",
         "text": "For every Unicode scalar value the reader's character decoders (sexp_decode_utf8_char for #\\x literals, sexp_read_utf8_char/sexp_push_utf8_char on a buffered port) invert the writer's encoder (sexp_utf8_char_byte_count + sexp_utf8_encode_char): proved over the full domain, no bound. Only the character-codec clause of C08 is claimed.",
         "note": "Trusted: CBMC 6.11 front end/SAT, accessor prelude substitution, CBMC's strlen model, exception constructors as contract stubs. Not covered: number/float text, datum labels, lists/vectors, symbol quoting, the (srfi 38)/(scheme read) Scheme code."},
 "C12": {"category": "proof", "technique": TECH,
         "text": "UTF-8 codec lemmas proved for all scalar values (widths agree, bytes well-formed, ref(encode(c)) == c); further string operations are bounded shape-enumerated checks against a code-point model (see evidence).",
         "note": "Trusted: CBMC 6.11, accessor prelude. Scheme-side string procedures (string-copy!, string-fill!, (chibi string), SRFI 130) not covered."},
}
CLAIMS["C09"] = {"category": "proof", "technique": TECH + "; loop-free full-domain equivalence of each 128-bit emulation helper with native __int128",
  "text": "Numeric-build-variant clause only: with SEXP_USE_CUSTOM_LONG_LONGS=1 every struct helper of bignum.h (add, add_uint, sub, negate, shl/shr, lt/eq/and, fits/is_fixnum predicates, conversions, mul_uint, lsint_mul_sint, luint_div early exits) equals the native 128-bit operation on the same bits for all inputs (proved, no bound). Every 128-bit use in bignum.c/vm.c goes through these helpers.",
  "note": "luint_mul_uint is proved against the base-2^32 schoolbook expansion (identity with a*b assumed, cvc5 back end); lsint_mul_sint against luint_mul_uint's contract (uninterpreted function); luint_div's loop (q = floor(a/b)) is undecided and listed. Simplifier half of C09 is not covered (program-meaning statement)."}
CLAIMS["C19"] = {"category": "proof", "technique": TECH + "; generated C of bytevector.stub regenerated with tools/chibi-ffi each run",
  "text": "C parts of the codec property: mini-float (f8/f16) encode/decode round trips and totality over their whole finite domains; every numeric bytevector accessor generated from lib/scheme/bytevector.stub reads/writes exactly [k,k+W) inside the bytevector or raises, for any fixnum index, set!-then-ref returns the value, nothing else is written (proved per accessor; bytevector length enumerated).",
  "note": "Boxing constructors and exception constructors are contract stubs. Not covered: base64, quoted-printable, URI, CSV, json.scm (Scheme); JSON C reader and UTF-16/32 transcoders not yet under contract (see evidence not_covered)."}
CLAIMS["C04"] = {"category": "proof", "technique": TECH + "; representation lemmas full-domain, loop contract for sexp_bignum_hi; word arithmetic shape-enumerated against a 704-bit mathematical value",
  "text": "Proved without bound: sexp_make_integer_from_lsint / _from_luint (all 2^128 inputs: exact value, canonical form), sexp_fixnum_to_bignum, sexp_number_type (total), sexp_bignum_hi (loop contract, any length). Bounded (operand shapes enumerated, words and signs symbolic): add_digits, sub_digits, bignum_add/sub, compare(_abs), fxadd, fxsub, fxmul, add_fixnum, normalize, copy_bignum, and the generic sexp_add / sexp_sub on every fixnum/bignum kind pair: exact mathematical value and canonical (fixnum iff it fits) result.",
  "note": "Callers are checked against callee contracts (hi, copy_bignum, number_type, fxadd/fxsub stubs; each real body checked against the same contract in its own group). alloc_plain allocator. Word multiply as uninterpreted function in fxmul. Not decided: Karatsuba mul, division, expt, sqrt, gcd, text conversion, Scheme-level numeric procedures."}
NOT_APPLICABLE = {
 "C03": "compiler-correctness statement over all programs; needs formal semantics of source and bytecode and a simulation proof over an unbounded AST heap - no per-function contract expresses it (local pieces are claimed under C01/C05)",
 "C07": "hygiene is invariance under renaming of whole programs; resolution spans eval.c and 250 lines of init-7.scm (Scheme); no single-call contract expresses it",
 "C13": "data-race / shared-state property across OS threads; CBMC contracts (--dfcc) are sequential and have no thread model",
 "C14": "import-set algebra, export rewriting and once-only loading live in lib/meta-7.scm (Scheme); no deductive verifier for Scheme is available here",
 "C20": "lib/chibi/regexp.scm is entirely Scheme; no deductive verifier for Scheme is available here",
}
NOTES = "All checks: ./check <ID> --tier quick|thorough; exit 0 held / 1 VIOLATION / 2 undecided (time-out, tool failure, must-fire rule). Evidence separates proved (unbounded) from bounded obligations. See DESIGN.md."
