"""C06 groups: continuation capture / re-entry (C clause only)."""
import os
from vlib import core, vmextract
from groups import C01 as c01
FLAGS = ["-I@BUILD@/shim_small", "-DVERIF_KINDFOLD=1", "-I@BUILD@/C06/vm"]
VMDIR = os.path.join(core.BUILD, "C06", "vm")


def prepare(tier):
    vmextract.write_ops(VMDIR, ["CALLCC", "RESUMECC"], [f.replace("@BUILD@", core.BUILD) for f in FLAGS[:2]])


GROUPS = [
 {"name": "callcc_resume", "label": "bounded", "harness": "harness/C06/cont.c", "entry": "h_callcc_resume", "flags": FLAGS,
  "link_src": ["harness/vm/stubs.c"], "units": [{"repo": "sexp.c", "remove_bodies": c01.SEXP_STUBBED + ["sexp_make_procedure_op"] if False else c01.SEXP_STUBBED}],
  "unwind": 40, "min_obligations": 10, "timeout": 200, "mem_gb": 3,
  "functions": ["vm.c:sexp_apply:case SEXP_OP_CALLCC", "vm.c:sexp_apply:case SEXP_OP_RESUMECC", "vm.c:sexp_save_stack", "vm.c:sexp_restore_stack"],
  "bound": "live stack of 13..16 slots (frame at 8, 0..3 temporaries); slot contents, the resumed value symbolic",
  "assumptions": ["sexp_make_vector / sexp_make_procedure are alloc_plain contract stubs", "the stack does not need to grow on re-entry (growth is checked under C05)"],
  "instances": [{"name": "nt%d" % nt, "defs": {"NT": nt}} for nt in (0, 1, 3)]},
]
META = {
 "level": "other",
 "explanation": "bounded deductive check of the one C-implemented clause of C06 (capture / re-entry restores the captured stack); every obligation is over stacks of enumerated size",
 "trusted_base": ["CBMC 6.11.0", "vlib/vmextract.py opcode extraction", "harness/prelude.h substitutions"],
 "assumptions": [],
 "not_covered": ["dynamic-wind order, parameterize, with-exception-handler / guard handler contexts, raise-continuable: implemented in lib/init-7.scm and lib/srfi/39/syntax.scm (Scheme) - not addressed",
                 "GC safety of the capture (the continuation box must stay rooted across sexp_save_stack's allocation): see C02"],
}
