import os, re
from vlib import native, core
W = (1, 2, 3, 4)
WCDIR = os.path.join(core.BUILD, "C08", "writechar")


def extract_writechar():
    """Cut the character branch out of sexp_write_one (sexp.c of the current tree).  Must-fire rules:
    the function header, exactly one `} else if (sexp_charp(obj)) {` inside it, balanced braces,
    the declarations of i and c the harness repeats."""
    src = open(core.repo_file("sexp.c")).read()
    m = re.search(r"^sexp sexp_write_one \(sexp ctx, sexp obj, sexp out, sexp_sint_t bound\) \{$", src, re.M)
    if not m:
        raise core.Undecided("must-fire: sexp_write_one header not found in sexp.c")
    end = re.search(r"^\}$", src[m.end():], re.M)
    body = src[m.end():m.end() + end.start()]
    heads = list(re.finditer(r"^  \} else if \(sexp_charp\(obj\)\) \{$", body, re.M))
    if len(heads) != 1:
        raise core.Undecided("must-fire: character branch of sexp_write_one found %d times" % len(heads))
    i = heads[0].end(); depth = 1
    while depth and i < len(body):
        depth += {"{": 1, "}": -1}.get(body[i], 0); i += 1
    if depth:
        raise core.Undecided("must-fire: unbalanced braces in the character branch")
    blk = body[heads[0].end():i - 1]
    blk = re.sub(r"\n#if [A-Z_ &|!]+\n\s*$", "\n", blk)     # the #if that guards the NEXT branch
    if re.search(r"^#(if|else|endif)", blk, re.M) or "sexp_unbox_character(obj)" not in blk:
        raise core.Undecided("must-fire: character branch of sexp_write_one has an unexpected shape")
    if not re.search(r"^  sexp_uint_t len, c;$", body, re.M) or not re.search(r"^  sexp_sint_t i=0, j, k;$", body, re.M):
        raise core.Undecided("must-fire: declarations of c / i in sexp_write_one changed")
    os.makedirs(WCDIR, exist_ok=True)
    core._write_if_changed(os.path.join(WCDIR, "writechar_block.inc"), blk + "\n")


def prepare(tier):
    extract_writechar()
    from groups import C01 as _c01
    _c01.extract_writeone()


def replay_write(spec, inputs, workdir):
    c = int(inputs.get("in_c", "0"))
    code = r"""
#include "chibi/eval.h"
int main(void){ sexp ctx = sexp_make_eval_context(NULL, NULL, NULL, 0, 0);
  sexp s = sexp_write_to_string(ctx, sexp_make_character(%d));
  sexp r = sexp_read_from_string(ctx, sexp_string_data(s), -1);
  printf("(write (integer->char %d)) => %%s ; read back: %%s %%ld\n", sexp_string_data(s), sexp_charp(r) ? "char" : "not a char", sexp_charp(r) ? (long)sexp_unbox_character(r) : -1L);
  return (sexp_charp(r) && sexp_unbox_character(r) == %d) ? 0 : 1; }
""" % (c, c, c)
    rc, o = native.run_driver(workdir, "replay_write", code)
    return rc == 1, o


def replay_decode(spec, inputs, workdir):
    c = int(inputs.get("in_c", "0"))
    code = r"""
#include "sexp.c"
int main(void){ unsigned char b[8]={0}; int c=%d; int n=sexp_utf8_char_byte_count(c);
  sexp_utf8_encode_char(b,n,c); int r=sexp_decode_utf8_char(b);
  printf("sexp_decode_utf8_char(encode(%%d)) = %%d\n", c, r); return r==c ? 0 : 1; }
""" % c
    rc, o = native.run_driver(workdir, "replay_decode", code, include_c=["sexp.c"])
    return rc == 1, o

def replay_wstring(spec, inputs, workdir):
    b = int(inputs.get("in_b", "0"))
    code = r"""
#include "chibi/eval.h"
int main(void){ sexp ctx = sexp_make_eval_context(NULL, NULL, NULL, 0, 0);
  char buf[2] = {(char)%d, 0};
  sexp str = sexp_c_string(ctx, buf, 1);
  sexp s = sexp_write_to_string(ctx, str);
  sexp r = sexp_read_from_string(ctx, sexp_string_data(s), -1);
  int ok = sexp_stringp(r) && sexp_string_size(r) == 1 && (unsigned char)sexp_string_data(r)[0] == %d;
  printf("(write (string (integer->char %d))) => %%s ; read back: %%s\n", sexp_string_data(s), ok ? "the same string" : "a different datum");
  return ok ? 0 : 1; }
""" % (b, b, b)
    rc, o = native.run_driver(workdir, "replay_wstring", code)
    return rc == 1, o


GROUPS = [
 {"name": "decode_literal", "label": "proved", "harness": "harness/C08/charcodec.c", "entry": "h_decode_literal",
  "functions": ["sexp.c:sexp_decode_utf8_char", "sexp.c:sexp_utf8_char_byte_count", "sexp.c:sexp_utf8_encode_char"],
  "unwind": 8, "stubs": ["sexp_user_exception"], "min_obligations": 10, "replay": replay_decode,
  "bound": "none (strlen model unwound to 8 > maximal width 4, unwinding assertion on)",
  "instances": [{"name": "w%d" % w, "defs": {"W": w}} for w in (2, 3, 4)]},
 {"name": "read_port", "label": "proved", "harness": "harness/C08/charcodec.c", "entry": "h_read_port",
  "functions": ["eval.c:sexp_read_utf8_char", "eval.c:sexp_push_utf8_char", "sexp.h:sexp_read_char(buffer path)"],
  "unwind": 8, "stubs": ["sexp_user_exception", "sexp_buffered_read_char"], "stub_src": ["harness/stubs.c", "harness/C08/stubs.c"],
  "min_obligations": 10,
  "instances": [{"name": "w%d" % w, "defs": {"W": w}} for w in W]},
 {"name": "write_char", "label": "proved", "harness": "harness/C08/writechar.c", "entry": "h_write_char", "flags": ["-I@BUILD@/C08/writechar"],
  "functions": ["sexp.c:sexp_write_one (character branch, extracted on every run)", "sexp.c:hex_digit"],
  "unwind": 26, "min_obligations": 6, "replay": replay_write, "timeout": 300, "mem_gb": 4,
  "bound": "none: every scalar value 0..0x10FFFF; loops over the 9-entry name table and the <= 21-character text are fully unwound (unwinding assertions on)",
  "assumptions": ["the block is cut out of sexp_write_one mechanically; sexp_write_char / sexp_write_string are recording stubs (port layer not covered)",
                  "the reader's rule for #\\ literals (sexp_read_raw: one character / x + hex digits via sexp_read_number / name table) is restated in the harness as the specification; the reader itself is covered by decode_literal and C04 read_number_digits only"],
  "instances": [{"name": "all_scalars"}]},
 {"name": "write_string_escape", "label": "proved", "harness": "harness/C08/writestring.c", "entry": "h_write_string",
  "flags": ["-I@BUILD@/shim_small", "-I@BUILD@/C01/writeone", "-I" + core.REPO],
  "functions": ["sexp.c:sexp_write_one (string branch: escape of one byte)", "sexp.c:hex_digit"],
  "unwind": 10, "min_obligations": 6, "timeout": 300, "mem_gb": 4, "replay": replay_wstring,
  "bound": "none for the byte (all 256 values); a one-byte string is the inductive step for any length because the loop body reads only the current byte",
  "assumptions": ["verified text: per-run copy of sexp.c with the self-calls of sexp_write_one redirected (groups/C01.py:extract_writeone); sexp_write_char / sexp_write_string are recording stubs",
                  "the reader's escape rule for string literals is restated in the harness as the specification (sexp_read_string itself is not under contract)",
                  "independence of loop iterations (the body reads str[0] only) is by inspection, not a discharged obligation"],
  "instances": [{"name": "any_byte"}]},
]
META = {
 "not_covered": ["number and float text (libc snprintf/strtod decide it)", "datum labels, lists, vectors, bytevectors, symbols (sexp_write_one / sexp_read_raw are 400-line port-driven functions: only the character and string branches of the writer are reached, as extracted fragments); the reader's string-escape parser sexp_read_string",
                 "symbol |quoting| predicate (inlined in sexp_write_one)", "(srfi 38) / (scheme read)/(scheme write): Scheme code"],
 "trusted_base": ["CBMC 6.11.0 front end and SAT back end", "harness/prelude.h accessor substitution (same address, exact field type)", "CBMC's strlen model"],
 "assumptions": ["exception constructors replaced by the contract 'returns a valid exception object'",
                 "sexp_buffered_read_char (port refill) is not reached when the buffer holds the whole character; replaced by a stub returning EOF"],
}
