from vlib import native
W = (1, 2, 3, 4)


def replay_decode(spec, inputs, workdir):
    c = int(inputs.get("in_c", "0"))
    code = r"""
#include "sexp.c"
int main(void){ unsigned char b[8]={0}; int c=%d; int n=sexp_utf8_char_byte_count(c);
  sexp_utf8_encode_char(b,n,c); int r=sexp_decode_utf8_char(b);
  printf("sexp_decode_utf8_char(encode(%%d)) = %%d\n", c, r); return r==c ? 0 : 1; }
""" % c
    rc, o = native.run_driver(workdir, "replay_decode", code, include_c=["sexp.c"])
    return rc == 1, o

GROUPS = [
 {"name": "decode_literal", "label": "proved", "harness": "harness/C08/charcodec.c", "entry": "h_decode_literal",
  "functions": ["sexp.c:sexp_decode_utf8_char", "sexp.c:sexp_utf8_char_byte_count", "sexp.c:sexp_utf8_encode_char"],
  "unwind": 8, "stubs": ["sexp_user_exception"], "min_obligations": 10, "replay": replay_decode,
  "bound": "none (strlen model unwound to 8 > maximal width 4, unwinding assertion on)",
  "instances": [{"name": "w%d" % w, "defs": {"W": w}} for w in (2, 3, 4)]},
 {"name": "read_port", "label": "proved", "harness": "harness/C08/charcodec.c", "entry": "h_read_port",
  "functions": ["eval.c:sexp_read_utf8_char", "eval.c:sexp_push_utf8_char", "sexp.h:sexp_read_char(buffer path)"],
  "unwind": 8, "stubs": ["sexp_user_exception", "sexp_buffered_read_char"], "stub_src": ["harness/stubs.c", "harness/C08/stubs.c"],
  "min_obligations": 10,
  "instances": [{"name": "w%d" % w, "defs": {"W": w}} for w in W]},
]
META = {
 "not_covered": ["number and float text (libc snprintf/strtod decide it)", "datum labels, lists, vectors, bytevectors (sexp_write_one / sexp_read_raw are 400-line port-driven functions outside the verifier's reach)",
                 "symbol |quoting| predicate (inlined in sexp_write_one)", "(srfi 38) / (scheme read)/(scheme write): Scheme code"],
 "trusted_base": ["CBMC 6.11.0 front end and SAT back end", "harness/prelude.h accessor substitution (same address, exact field type)", "CBMC's strlen model"],
 "assumptions": ["exception constructors replaced by the contract 'returns a valid exception object'",
                 "sexp_buffered_read_char (port refill) is not reached when the buffer holds the whole character; replaced by a stub returning EOF"],
}
