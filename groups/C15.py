"""C15 groups: hash tables as finite maps (lib/srfi/69/hash.c, built-in identity mode)."""
FLAGS = ["-I@BUILD@/shim_small", "-DVERIF_KINDFOLD=1", "-DVM_NPAIRS=12"]
BASE = {"label": "bounded", "harness": "harness/C15/hashtable.c", "flags": FLAGS, "link_src": ["harness/C15/stubs.c"],
        "stubs": ["sexp_hash_table_delete_typecheck"] if False else [], "unwind": 34, "unwindset": "sexp_regrow_hash_table.0:4,sexp_scan_bucket.0:4,sexp_scan_bucket.1:4,sexp_scan_bucket.2:4,sexp_hash_table_delete.0:4,strcmp.0:12", "min_obligations": 5, "timeout": 300, "mem_gb": 4,
        "assumptions": ["identity mode (hash-by-identity / eq?): user hash and equality procedures (calls back into the VM) are not covered", "sexp_cons / sexp_make_vector are alloc_plain stubs",
                        "keys are pairwise distinct symbolic fixnums; the bucket of each follows from its value"]}
GROUPS = [
 dict(BASE, name="cell", entry="h_cell", functions=["lib/srfi/69/hash.c:sexp_hash_table_cell", "lib/srfi/69/hash.c:sexp_get_bucket", "lib/srfi/69/hash.c:sexp_scan_bucket", "lib/srfi/69/hash.c:sexp_regrow_hash_table", "lib/srfi/69/hash.c:sexp_hash_by_identity"],
      bound="no growth: 16 buckets with 0..1 entries; growth: 4 buckets (8 after growth) with 1..2 entries (every insertion grows such a table); keys, values, the looked-up key and createp symbolic",
      instances=[{"name": "nb16_e%d" % e, "defs": {"NB": 16, "E": e}} for e in (0, 1)] + [{"name": "grow_nb4_e%d" % e, "defs": {"NB": 4, "E": e}} for e in (1, 2)]),
 dict(BASE, name="delete", entry="h_delete", functions=["lib/srfi/69/hash.c:sexp_hash_table_delete"],
      bound="16 buckets, 1..2 existing entries", instances=[{"name": "e%d" % e, "defs": {"NB": 16, "E": e}} for e in (1, 2)]),
]
GROUPS.append({"name": "hash_bignum", "label": "bounded", "harness": "harness/C15/hashval.c", "entry": "h_hash_bignum_coherent",
               "flags": ["-I@BUILD@/shim_small", "-DVERIF_KINDFOLD=1"], "stubs": ["sexp_user_exception", "sexp_type_exception", "sexp_xtype_exception", "sexp_range_exception", "sexp_make_exception"],
               "stub_src": ["harness/stubs.c"], "units": [{"repo": "bignum.c"}], "unwind": 60, "unwindset": "hash_one.0:60,hash_one.1:60,hash_one.2:2,hash_one:2,sexp_bignum_hi.0:5",
               "cbmc": ["--drop-unused-functions", "--no-signed-overflow-check", "--max-field-sensitivity-array-size", "128", "--z3"],
               "min_obligations": 3, "timeout": 400, "mem_gb": 6,
               "functions": ["lib/srfi/69/hash.c:hash_one(bignum arm)", "sexp.c:_sexp_type_specs[SEXP_BIGNUM]"],
               "bound": "an L-word bignum against the same value stored in L+1 words (spare high zero word), L = 1, 2, 3; words and sign symbolic",
               "assumptions": ["discharged by the z3 4.8.12 SMT back end (MiniSat does not finish the relational query over two FNV-1 chains)"],
               "instances": [{"name": "l%d_vs_l%d" % (l, l + 1), "defs": {"LW": l}} for l in (1, 2, 3)]})
GROUPS.append(dict(GROUPS[-1], name="hash_string", entry="h_string_coherent", functions=["lib/srfi/69/hash.c:hash_one(string / bytes arms)", "lib/srfi/69/hash.c:sexp_string_hash", "lib/srfi/69/hash.c:sexp_string_ci_hash", "sexp.c:sexp_equalp_bound(strings)"],
                   bound="two-character ASCII strings (characters symbolic): a view at offset 1 into a 4-byte store against a 2-byte store at offset 0",
                   unwindset="hash_one.0:60,hash_one.1:60,hash_one.2:4,hash_one:3,sexp_equalp_bound:3,string_hash.0:8,string_ci_hash.0:8", instances=[{"name": "view_vs_copy", "defs": {"LW": 1}}]))
import os
from vlib import core
from groups import C16 as c16, C01 as c01


def prepare(tier):
    import os as _os; _os.makedirs(c16.GENDIR, exist_ok=True); c16.prepare_types(tier)        # type_specs.h: the text of _sexp_type_specs


GROUPS.append({"name": "equalp_bound", "label": "bounded", "harness": "harness/C15/equalp.c", "entry": "h_equalp", "flags": FLAGS[:2] + ["-DVM_NPAIRS=8", "-I" + c16.GENDIR],
               "link_src": ["harness/vm/stubs.c"], "units": [{"repo": "sexp.c", "remove_bodies": c01.SEXP_STUBBED}], "unwind": 8, "unwindset": "h_equalp.0:64,sexp_equalp_bound:4",
               "min_obligations": 4, "timeout": 300, "mem_gb": 4, "functions": ["sexp.c:sexp_equalp_bound"],
               "bound": "trees of 1 or 3 pairs (three shapes) leaves concrete, all equal or exactly one differing (every position); the budget symbolic in 10..1000",
               "assumptions": ["pairs only (no vectors, strings, records); leaves are flonum objects (an immediate held in a pointer variable does not fold in CBMC)"],
               "instances": [{"name": "shape%d_d%s" % (k, "n" if d < 0 else d), "defs": {"SHAPE": k, "DIFF": d}} for k in range(3) for d in ([-1, 0, 1] if k == 0 else [-1, 0, 1, 2, 3])]})
META = {
 "level": "other",
 "explanation": "bounded deductive check: finite-map obligations over tables of enumerated size and hash coherence over enumerated bignum shapes; no unbounded obligation is claimed",
 "trusted_base": ["CBMC 6.11.0 (MiniSat; z3 4.8.12 for the hash coherence group)", "harness/prelude.h substitutions incl. kind tests on registered objects"],
 "assumptions": [],
 "not_covered": ["sexp_equalp_op's cycle-safe fallback and sexp_equalp_bound on vectors, strings, records and cyclic data (only trees of pairs)", "hash coherence for strings / flonums / vectors / pairs (only bignums)",
                 "equal / user-procedure modes of the hash table (sexp_apply back into the VM)", "hash-table-copy, walk, fold, update!: Scheme code (lib/srfi/69/interface.scm)",
                 "(chibi equiv), SRFI 125, SRFI 128: Scheme code"],
}
