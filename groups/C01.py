"""C01 groups: memory safety of the C primitives (VM opcode bodies first)."""
import os
from vlib import core, vmextract

FLAGS = ["-I@BUILD@/shim_small", "-DVERIF_KINDFOLD=1", "-I@BUILD@/C01/vm"]
VMDIR = os.path.join(core.BUILD, "C01", "vm")

# opcode -> (nargs, stack effect on completion, inline operand words, argument classes to try per slot)
IMM, MIN, PAIR, VEC, BYT, STR, FIX, FLO, CHR, CUR, IPAIR, IVEC, IBYT, ISTR, ANYV = range(15)
ANY = [ANYV]      # one class: an arbitrary immediate or a minimum-size object of any non-accepted tag
OPS = {
 "CAR": (1, 0, 0, [ANY + [PAIR]]),
 "CDR": (1, 0, 0, [ANY + [PAIR]]),
 "SET_CAR": (2, -2, 0, [ANY + [PAIR, IPAIR], ANY]),
 "SET_CDR": (2, -2, 0, [ANY + [PAIR, IPAIR], ANY]),
 "CONS": (2, -1, 0, [ANY, ANY]),
 "VECTOR_REF": (2, -1, 0, [ANY + [VEC], ANY + [FIX]]),
 "VECTOR_SET": (3, -3, 0, [ANY + [VEC, IVEC], ANY + [FIX], [IMM]]),
 "VECTOR_LENGTH": (1, 0, 0, [ANY + [VEC]]),
 "BYTES_REF": (2, -1, 0, [ANY + [BYT], ANY + [FIX]]),
 "BYTES_SET": (3, -3, 0, [ANY + [BYT, IBYT], ANY + [FIX], ANY + [FIX]]),
 "BYTES_LENGTH": (1, 0, 0, [ANY + [BYT]]),
 "STRING_REF": (2, -1, 0, [ANY + [STR], ANY + [CUR]]),
 "STRING_SET": (3, -3, 0, [ANY + [STR, ISTR], ANY + [CUR], ANY + [CHR]]),
 "STRING_CURSOR_NEXT": (2, -1, 0, [ANY + [STR], ANY + [CUR]]),
 "STRING_CURSOR_PREV": (2, -1, 0, [ANY + [STR], ANY + [CUR]]),
 "STRING_CURSOR_END": (1, 0, 0, [ANY + [STR]]),
 "STRING_LENGTH": (1, 0, 0, [ANY + [STR]]),
 "AND": (2, -1, 0, [ANY, ANY]),
 "EOFP": (1, 0, 0, [ANY]), "NULLP": (1, 0, 0, [ANY]), "FIXNUMP": (1, 0, 0, [ANY]), "SYMBOLP": (1, 0, 0, [ANY]), "CHARP": (1, 0, 0, [ANY]),
 "EQ": (2, -1, 0, [ANY, ANY]), "SCP": (1, 0, 0, [ANY]),
 "SC_LT": (2, -1, 0, [ANY + [CUR], ANY + [CUR]]), "SC_LE": (2, -1, 0, [ANY + [CUR], ANY + [CUR]]),
 "CHAR2INT": (1, 0, 0, [ANY + [CHR]]), "INT2CHAR": (1, 0, 0, [ANY + [FIX]]),
 "CHAR_UPCASE": (1, 0, 0, [ANY + [CHR]]), "CHAR_DOWNCASE": (1, 0, 0, [ANY + [CHR]]),
 "DROP": (1, -1, 0, [ANY]),
 "ADD": (2, -1, 0, [ANY + [FIX, FLO], ANY + [FIX, FLO]]), "SUB": (2, -1, 0, [ANY + [FIX, FLO], ANY + [FIX, FLO]]),
 "MUL": (2, -1, 0, [ANY + [FIX, FLO], ANY + [FIX, FLO]]), "DIV": (2, -1, 0, [ANY + [FIX, FLO], ANY + [FIX, FLO]]),
 "QUOTIENT": (2, -1, 0, [ANY + [FIX], ANY + [FIX]]), "REMAINDER": (2, -1, 0, [ANY + [FIX], ANY + [FIX]]),
 "LT": (2, -1, 0, [ANY + [FIX, FLO], ANY + [FIX, FLO]]), "LE": (2, -1, 0, [ANY + [FIX, FLO], ANY + [FIX, FLO]]),
 "EQN": (2, -1, 0, [ANY + [FIX, FLO], ANY + [FIX, FLO]]),
}


# functions of sexp.c that the opcode bodies call and that are replaced by contract stubs (harness/vm/stubs.c);
# every other sexp.c function called from an opcode body (utf8 helpers, sexp_string_utf8_ref, ...) keeps its real body
SEXP_STUBBED = ["sexp_user_exception", "sexp_type_exception", "sexp_xtype_exception", "sexp_range_exception", "sexp_cons_op",
                "sexp_make_flonum", "sexp_list2", "sexp_make_ratio", "sexp_make_exception", "sexp_alloc_tagged_aux", "sexp_make_vector_op"]


NUMERIC = ("ADD", "SUB", "MUL", "DIV", "QUOTIENT", "REMAINDER", "LT", "LE", "EQN")


WODIR = os.path.join(core.BUILD, "C01", "writeone")


def extract_writeone():
    """Per-run copy of sexp.c in which, inside sexp_write_one only, self-calls and depth-resetting
    re-entries are redirected to the contract stubs of harness/C01/writedepth.c.  Must-fire rules:
    the function header, at least 5 self-calls, `bound` is never assigned in the body."""
    import re
    src = open(core.repo_file("sexp.c")).read()
    m = re.search(r"^sexp sexp_write_one \(sexp ctx, sexp obj, sexp out, sexp_sint_t bound\) \{$", src, re.M)
    if not m:
        raise core.Undecided("must-fire: sexp_write_one header not found in sexp.c")
    end = re.search(r"^\}$", src[m.end():], re.M)
    body = src[m.end():m.end() + end.start()]
    if re.search(r"\bbound\s*(=[^=]|\+\+|--|\+=|-=)|(\+\+|--)\s*bound\b|&\s*bound\b", body):
        raise core.Undecided("must-fire: sexp_write_one assigns its depth parameter `bound`; the stub contract compares against the entry value")
    b2, n1 = re.subn(r"\bsexp_write_one\s*\(", "VF_REC(", body)
    b2, n2 = re.subn(r"\bsexp_write\s*\(", "VF_WRITE(", b2)
    if n1 < 5:
        raise core.Undecided("must-fire: only %d self-calls found in sexp_write_one" % n1)
    for other in ("sexp_write_op", "sexp_write_simple_object", "sexp_apply"):
        if re.search(r"\b%s\s*\(" % other, body):
            raise core.Undecided("must-fire: sexp_write_one re-enters the writer through %s, which the redirection does not know" % other)
    os.makedirs(WODIR, exist_ok=True)
    core._write_if_changed(os.path.join(WODIR, "sexp_writeone.c"), src[:m.end()] + b2 + src[m.end() + end.start():])


def prepare(tier):
    extract_writeone()
    vmextract.write_ops(VMDIR, sorted(OPS), [f.replace("@BUILD@", core.BUILD) for f in FLAGS if not f.endswith("/C01/vm")])


def op_instances(op):
    n, eff, words, classes = OPS[op]
    import itertools
    out = []
    for combo in itertools.product(*classes):
        d = {"OP": op, "NARGS": n, "EFFECT": "(%d)" % eff, "WORDS": words}
        tagof = {PAIR: "SEXP_PAIR", IPAIR: "SEXP_PAIR", VEC: "SEXP_VECTOR", IVEC: "SEXP_VECTOR", BYT: "SEXP_BYTES", IBYT: "SEXP_BYTES",
                 STR: "SEXP_STRING", ISTR: "SEXP_STRING", FLO: "SEXP_FLONUM"}
        for k, c in enumerate(combo):
            d["CLS%d" % (k + 1)] = c
            right = [tagof[x] for x in classes[k] if x in tagof]
            if right:
                d["EXCL%d" % (k + 1)] = right[0]
        if op in NUMERIC:
            # numeric tower tags are accepted by the arithmetic opcodes (handed over to the generic entry points)
            d["EXCLX"] = "(t==SEXP_FLONUM||t==SEXP_BIGNUM||t==SEXP_RATIO||t==SEXP_COMPLEX)"
        out.append({"name": "%s_%s" % (op, "_".join(str(c) for c in combo)), "defs": d})
    return out


GROUPS = []
for op in sorted(OPS):
    GROUPS.append({"name": "op_" + op, "label": "proved", "harness": "harness/vm/generic.c", "entry": "h_op", "flags": FLAGS,
                   "link_src": ["harness/vm/stubs.c"], "unwind": 24,
                   "units": [{"repo": "sexp.c", "remove_bodies": SEXP_STUBBED}], "min_obligations": 5, "timeout": 200, "mem_gb": 3,
                   "functions": ["vm.c:sexp_apply:case SEXP_OP_" + op],
                   "bound": "none for the opcode body (loop-free); argument classes enumerated (any immediate / minimum-size object of any tag / right type with %d elements), values symbolic" % 2,
                   "instances": op_instances(op)})
META = {
 "trusted_base": ["CBMC 6.11.0 front end and SAT back end", "vlib/vmextract.py: mechanical extraction of the opcode bodies of sexp_apply (drops the dispatch loop and the prologue/epilogue, keeps every statement of every case; direct sign tests (sexp_sint_t)X < 0 rewritten to the shift form CBMC models faithfully)",
                  "harness/prelude.h substitutions incl. kind tests on registered objects (VERIF_KINDFOLD)"],
 "assumptions": ["bytecode operands are produced by the compiler: inline operand words are arbitrary 64-bit values for the opcodes checked here (none of which dereferences them)",
                 "sexp_ensure_stack has run: 64 free slots above top",
                 "callees outside vm.c and the leaf helpers of sexp.c are contract stubs: exception constructors return a valid exception object with a string message; sexp_cons/list2/make_flonum/make_vector return valid objects; generic arithmetic entry points return a valid number or an exception",
                 "registered heap objects are 8-byte aligned"],
 "not_covered": ["the reader and the analyzer/compiler (600-line port-driven functions)", "library procedures written in Scheme",
                 "opcodes not listed under functions_under_contract: CALL/TAIL_CALL/APPLY1/RET/DONE (see C05), CALLCC/RESUMECC (C06), FCALL0-4/FCALLN (dispatch to foreign functions), port opcodes READ_CHAR/PEEK_CHAR/WRITE_CHAR/WRITE_STRING, SLOT*/MAKE/ISA/TYPEP (type table), PARAMETER_REF, GLOBAL_REF, CLOSURE_REF, LOCAL_REF/SET, STACK_REF, PUSH, JUMP*, MAKE_PROCEDURE, MAKE_EXCEPTION, FORCE, YIELD",
                 "foreign primitives of sexp.c / eval.c / port.c beyond those listed (planned: substring, subbytes, index->cursor, utf8->string)"],
}

# recursion of the writer bounded by its depth argument (decreases clause on the redirected self-calls)
GROUPS.append({"name": "write_depth", "label": "proved", "harness": "harness/C01/writedepth.c", "entry": "h_write_depth",
               "flags": ["-I@BUILD@/shim_small", "-I@BUILD@/C01/writeone", "-I" + core.REPO], "unwind": 6, "min_obligations": 4, "timeout": 300, "mem_gb": 4,
               "functions": ["sexp.c:sexp_write_one (recursion measure; pair, vector, syntactic-closure and procedure branches)"],
               "bound": "none for the nesting depth (modular: self-calls are replaced by their contract, depth argument symbolic); the container itself has an enumerated shape (2 pairs, 3 slots)",
               "assumptions": ["self-calls and sexp_write re-entries inside sexp_write_one are redirected textually to contract stubs in a per-run copy of sexp.c; sexp_write_char / sexp_write_string are counting stubs",
                               "branches of sexp_write_one for other tags (numbers, strings, symbols, types, opcodes, default) are not instantiated: their re-entries are on fields that are leaves by type invariant"],
               "instances": [{"name": n, "defs": {"KIND": k}} for k, n in ((1, "pair"), (2, "vector"), (3, "synclo"), (4, "procedure"))]})

# byte-level UTF-8 primitives of (chibi io): every fixnum offset is contained (no out-of-bounds read, or an exception)
from groups import C12 as _c12
for _prim, _nm, _fn in ((0, "utf8_ref", "sexp_utf8_ref"), (1, "utf8_next", "sexp_utf8_next"), (2, "utf8_prev", "sexp_utf8_prev"), (3, "string_count", "sexp_string_count")):
    GROUPS.append(dict(_c12.STR, name="io_" + _nm, label="proved", entry="h_utf8_prims", unwind=14,
                       functions=["lib/chibi/io/port.c:" + _fn],
                       bound="none for the offsets (all fixnums); the bytevector / string has an enumerated shape (2..9 bytes) because CBMC cannot take symbolic object sizes",
                       instances=[{"name": "w%d%d%d" % p, "defs": {"W1": p[0], "W2": p[1], "W3": p[2], "PRIM": _prim}} for p in ((1, 0, 0), (2, 1, 0), (3, 4, 1))]))

# uniform-vector constructors: the element type code from Scheme indexes two static tables
for _nm, _fn in (("list_to_uvector", "sexp_list_to_uvector_op"),):      # make-uvector checks its type code itself; its instance was left undecided by the ignored obligations and is not claimed
    GROUPS.append({"name": "uv_" + _nm, "label": "bounded", "harness": "harness/C01/uvector.c", "entry": "h_" + _nm, "flags": ["-I@BUILD@/shim_small"],
                   "havoc_keep": [_fn], "unwind": 3, "unwinding_assertions": False, "min_obligations": 1, "timeout": 300, "mem_gb": 4,
                   "cbmc": ["--no-standard-checks", "--bounds-check", "--drop-unused-functions"],      # array-bounds obligations only: the callees return arbitrary values, so pointer obligations on their results would be artefacts
                   "functions": ["sexp.c:" + _fn + "(table accesses)"],
                   "bound": "every fixnum type code; loops of the function unrolled twice (the table accesses precede them)",
                   "assumptions": ["every callee returns an arbitrary value; only array-bounds obligations (the static tables sexp_uvector_chars / sexp_uvector_sizes) are generated in this group"],
                   "instances": [{"name": "all"}]})
