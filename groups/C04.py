"""C04 groups: exact arithmetic (C parts)."""
from vlib import native


def _val(words, sign):
    return sign * sum(w << (64 * i) for i, w in enumerate(words))


def replay_words(spec, inputs, workdir):
    """Rebuild the operands of a counterexample as exact (length, words, sign) bignums in a real
    context of the current tree, call the same function natively (ASan) and compare with Python
    integers."""
    d, grp = spec["defs"], spec["group"]
    gi = lambda k, dv=0: int(inputs.get(k, dv))
    A = [gi("in_a[%dl]" % i) for i in range(d["HA"])]
    B = [gi("in_b[%dl]" % i) for i in range(d["HB"])]
    sa, sb = (gi("in_sa", 1) or 1), (gi("in_sb", 1) or 1)
    w, f = gi("in_w"), gi("in_f")
    va, vb = _val(A, sa), _val(B, sb)
    calls = {
        "add_digits": ("sexp_bignum_add_digits(ctx, NULL, a, b)", lambda: ("mag", abs(va) + abs(vb))),
        "add_digits_inplace": ("sexp_bignum_add_digits(ctx, a, a, b)", lambda: ("mag", abs(va) + abs(vb))),
        "sub_digits": ("sexp_bignum_sub_digits(ctx, NULL, a, b)", lambda: ("mag", abs(abs(va) - abs(vb)))),
        "bignum_add": ("sexp_bignum_add(ctx, NULL, a, b)", lambda: ("val", va + vb)),
        "bignum_sub": ("sexp_bignum_sub(ctx, NULL, a, b)", lambda: ("val", va - vb)),
        "fxadd": ("sexp_bignum_fxadd(ctx, a, %dUL)" % w, lambda: ("mag", abs(va) + w)),
        "fxsub": ("sexp_bignum_fxsub(ctx, a, %dUL)" % w, lambda: ("val", sa * (abs(va) - w))),
        "add_fixnum": ("sexp_bignum_add_fixnum(ctx, a, sexp_make_fixnum(%dL))" % f, lambda: ("val", va + f)),
        "fxmul": ("sexp_bignum_fxmul(ctx, NULL, a, %dUL, 0)" % w, lambda: ("mag", abs(va) * w)),
        "normalize": ("sexp_bignum_normalize(a)", lambda: ("val", va)),
        "sexp_add": None, "sexp_sub": None,
        "sexp_quotient_fixbig": ("sexp_quotient(ctx, sexp_make_fixnum(%dL), b)" % f, lambda: ("canon", int(abs(f) / abs(vb)) * (1 if (f < 0) == (vb < 0) else -1) if vb else 0)),
        "sexp_remainder_fixbig": ("sexp_remainder(ctx, sexp_make_fixnum(%dL), b)" % f, lambda: ("canon", (f - vb * (int(abs(f) // abs(vb)) * (1 if (f < 0) == (vb < 0) else -1))) if vb else 0)),
    }
    if grp in ("sexp_add", "sexp_sub"):
        x = "a" if d.get("KA", 1) else "sexp_make_fixnum(%dL)" % f
        g2 = gi("in_g")
        y = "b" if d.get("KB", 1) else "sexp_make_fixnum(%dL)" % g2
        vx = va if d.get("KA", 1) else f
        vy = vb if d.get("KB", 1) else g2
        calls[grp] = ("%s(ctx, %s, %s)" % (grp, x, y), (lambda: ("canon", vx + vy)) if grp == "sexp_add" else (lambda: ("canon", vx - vy)))
    if grp not in calls or calls[grp] is None:
        return False, "no native replay for group " + grp
    call, want = calls[grp]
    mk = lambda nm, L, words, sg: ("sexp %s = sexp_make_bignum(ctx, %d); sexp_bignum_sign(%s) = %d;" % (nm, L, nm, sg)
                                   + "".join(" sexp_bignum_data(%s)[%d] = %dUL;" % (nm, i, x) for i, x in enumerate(words)))
    code = r"""
#include "chibi/eval.h"
#include "bignum.c"
int main(void){ sexp ctx = sexp_make_eval_context(NULL, NULL, NULL, 0, 0);
  %s
  %s
  sexp r = %s;
  if (sexp_fixnump(r)) printf("F %%ld\n", (long)sexp_unbox_fixnum(r));
  else if (sexp_bignump(r)) { printf("B %%d %%lu", (int)sexp_bignum_sign(r), (unsigned long)sexp_bignum_length(r));
    for (unsigned long i = 0; i < sexp_bignum_length(r); i++) printf(" %%lu", sexp_bignum_data(r)[i]); printf("\n"); }
  else printf("O %%p\n", (void*)r);
  return 0; }
""" % (mk("a", d["LA"], A, sa), mk("b", d["LB"], B, sb), call)
    rc, o = native.run_driver(workdir, "replay_words", code, include_c=["bignum.c"])
    kind, exp = want()
    line = [l for l in o.splitlines() if l[:2] in ("F ", "B ", "O ")]
    txt = "%s with a=%d b=%d w=%d f=%d (shapes %s)\nnative: %s\nexpected %s %d\n" % (call, va, vb, w, f, d, o.strip()[-400:], kind, exp)
    if rc != 0 or not line:
        return ("AddressSanitizer" in o), txt
    t = line[0].split()
    if t[0] == "F":
        got, isfix = int(t[1]), True
    elif t[0] == "B":
        got, isfix = _val([int(x) for x in t[3:]], int(t[1])), False
    else:
        return True, txt + "result is not an exact integer\n"
    bad = (abs(got) != exp) if kind == "mag" else (got != exp)
    if kind == "canon" and not bad:
        fits = -(1 << 62) <= got <= (1 << 62) - 1
        bad = fits != isfix
    return bad, txt + ("MISMATCH: got %d\n" % got if bad else "agrees\n")


def _replay_readnum1(inputs, workdir, neg):
    """Rebuild the literal (digits of in_val in the base, then the character) and read it with the real reader."""
    base, val, c = int(inputs.get("in_base", 10)), int(inputs.get("in_val", 0)), int(inputs.get("in_c", 48))
    pre = {2: "#b", 8: "#o", 10: "", 16: "#x"}.get(base)
    if pre is None or not (48 <= c < 127):
        return False, "no native replay for base %d / character %d" % (base, c)
    ds, v = "", val
    while v:
        ds = "0123456789abcdef"[v % base] + ds; v //= base
    lit = pre + ("-" if neg else "") + (ds or "0") + chr(c)
    want = int(("-" if neg else "") + (ds or "0") + chr(c), base)
    code = r"""
#include "chibi/eval.h"
int main(void){ sexp ctx = sexp_make_eval_context(NULL, NULL, NULL, 0, 0);
  sexp r = sexp_read_from_string(ctx, "%s", -1);
  if (sexp_fixnump(r)) printf("F %%ld\n", (long)sexp_unbox_fixnum(r));
  else if (sexp_bignump(r)) { printf("B %%d %%lu", (int)sexp_bignum_sign(r), (unsigned long)sexp_bignum_length(r));
    for (unsigned long i = 0; i < sexp_bignum_length(r); i++) printf(" %%lu", sexp_bignum_data(r)[i]); printf("\n"); }
  else printf("O %%p\n", (void*)r);
  return 0; }
""" % lit
    rc, o = native.run_driver(workdir, "replay_readnum", code)
    line = [l for l in o.splitlines() if l[:2] in ("F ", "B ", "O ")]
    txt = "(read) of the literal %s on the real reader\nnative: %s\nexpected %d\n" % (lit, o.strip()[-400:], want)
    if rc != 0 or not line:
        return ("AddressSanitizer" in o), txt
    t = line[0].split()
    if t[0] == "F":
        got = int(t[1])
    elif t[0] == "B":
        got = _val([int(x) for x in t[3:]], int(t[1]))
    else:
        return True, txt + "result is not an exact integer\n"
    return got != want, txt + ("MISMATCH: got %d\n" % got if got != want else "agrees\n")


def replay_readnum(spec, inputs, workdir):
    """The failing obligations do not depend on the sign: the counterexample is replayed with its own sign and with the other one."""
    neg = int(inputs.get("in_neg", 0))
    bad, txt = _replay_readnum1(inputs, workdir, neg)
    if bad:
        return bad, txt
    bad2, txt2 = _replay_readnum1(inputs, workdir, 1 - neg)
    return bad2, txt + txt2


SMALL = ["-I@BUILD@/shim_small"]
WORDS = {"harness": "harness/C04/words.c", "label": "bounded", "flags": SMALL,
         "stubs": ["sexp_bignum_hi", "sexp_copy_bignum"], "stub_src": ["harness/C04/stubs.c"], "unwind": 12,
         "unwindset": "sexp_bignum_add_digits:2,sexp_bignum_sub_digits:2,sexp_add:2,sexp_sub:2",
         "min_obligations": 5, "timeout": 200, "mem_gb": 3, "replay": replay_words,
         "assumptions": ["sexp_copy_bignum replaced by its contract (loop form, registers the copy's significant length); the real body is checked against the same contract in group copy_bignum",
                         "sexp_bignum_hi replaced by its contract (asserts the instance's significant length, returns it); proved separately in group hi",
                         "sexp_alloc_tagged_aux is alloc_plain: fresh zeroed object of exactly the requested size (the contract sexp_try_alloc is checked against under C10)",
                         "context built with SEXP_MARK_STACK_COUNT=4 (shim of features.h) so that a statically typed context is cheap; the mark stack is not touched by these functions"]}
Q = [(1, 1), (2, 1), (2, 2)]
T = [(1, 1), (2, 1), (2, 2), (3, 1), (3, 2), (3, 3)]


def two(extra=None):
    out = []
    for (la, ha) in T:
        for (lb, hb) in T:
            quick = (la, ha) in Q and (lb, hb) in Q
            d = {"LA": la, "HA": ha, "LB": lb, "HB": hb}
            if extra:
                d.update(extra)
            out.append({"name": "a%d_%d_b%d_%d" % (la, ha, lb, hb), "defs": d,
                        "tiers": ["quick", "thorough"] if quick else ["thorough"]})
    return out


def one(extra=None):
    return [{"name": "a%d_%d" % (la, ha), "defs": dict({"LA": la, "HA": ha, "LB": 1, "HB": 1}, **(extra or {})),
             "tiers": ["quick", "thorough"] if (la, ha) in Q else ["thorough"]} for (la, ha) in T]


BOUND2 = "allocated length L and significant length H of each operand enumerated: quick L<=2 (9 shape pairs), thorough L<=3 (36 pairs); words and signs symbolic"
BOUND1 = "operand shapes (L,H) enumerated: quick L<=2, thorough L<=3; words, sign, the machine word / fixnum operand symbolic"
GROUPS = []
for nm, fns in (("add_digits", ["sexp_bignum_add_digits"]), ("add_digits_inplace", ["sexp_bignum_add_digits(dst==a)"]),
                ("sub_digits", ["sexp_bignum_sub_digits"]), ("bignum_add", ["sexp_bignum_add"]), ("bignum_sub", ["sexp_bignum_sub"]),
                ("compare", ["sexp_bignum_compare", "sexp_bignum_compare_abs"])):
    GROUPS.append(dict(WORDS, name=nm, entry="h_" + nm, functions=["bignum.c:" + f for f in fns], bound=BOUND2, instances=two()))
for nm, fns in (("fxadd", ["sexp_bignum_fxadd"]), ("fxsub", ["sexp_bignum_fxsub"]), ("add_fixnum", ["sexp_bignum_add_fixnum"]),
                ("fxmul", ["sexp_bignum_fxmul"]), ("normalize", ["sexp_bignum_normalize"])):
    uf = {"VERIF_UF_MUL": 1} if nm == "fxmul" else None
    g = dict(WORDS, name=nm, entry="h_" + nm, functions=["bignum.c:" + f for f in fns], bound=BOUND1, instances=one(uf))
    if nm == "add_fixnum":
        g["stubs"] = WORDS["stubs"] + ["sexp_bignum_fxadd", "sexp_bignum_fxsub"]
        g["assumptions"] = WORDS["assumptions"] + ["sexp_bignum_fxadd / sexp_bignum_fxsub replaced by their contracts (checked against the real bodies in groups fxadd, fxsub)"]
    if uf:
        g["assumptions"] = WORDS["assumptions"] + ["the 64x64->128 word multiplication is an uninterpreted function shared by code and specification (congruence, plus the axiom hi(a*b) <= 2^64-2): fxmul's carry propagation and accumulation are what is decided"]
    GROUPS.append(g)
# generic entry points: operand kinds (0 = fixnum, 1 = bignum)
def kinds(nm):
    out = []
    for ka, kb in ((1, 1), (0, 1), (1, 0), (0, 0)):
        if ka and kb:
            shapes = [((la, ha), (lb, hb)) for (la, ha) in T for (lb, hb) in T]
        elif ka:
            shapes = [((la, ha), (1, 1)) for (la, ha) in T]
        elif kb:
            shapes = [((1, 1), (lb, hb)) for (lb, hb) in T]
        else:
            shapes = [((1, 1), (1, 1))]
        for (a, b) in shapes:
            quick = a in Q and b in Q
            out.append({"name": "k%d%d_a%d_%d_b%d_%d" % (ka, kb, a[0], a[1], b[0], b[1]),
                        "defs": {"LA": a[0], "HA": a[1], "LB": b[0], "HB": b[1], "KA": ka, "KB": kb},
                        "tiers": ["quick", "thorough"] if quick else ["thorough"]})
    return out

for nm in ("sexp_add", "sexp_sub"):
    GROUPS.append(dict(WORDS, name=nm, entry="h_" + nm, functions=["bignum.c:" + nm + "(exact integer operands)", "bignum.c:sexp_number_type"],
                       bound=BOUND2 + "; operand kinds fixnum/bignum enumerated", instances=kinds(nm),
                       stubs=WORDS["stubs"] + ["sexp_ratio_add", "sexp_complex_add", "sexp_complex_sub", "sexp_ratio_to_double", "sexp_bignum_to_double", "sexp_number_type", "sexp_bignum_fxadd", "sexp_bignum_fxsub"]))
for nm in ("sexp_quotient", "sexp_remainder"):
    GROUPS.append(dict(WORDS, name=nm + "_fixbig", entry="h_" + nm + "_fixbig", functions=["bignum.c:" + nm + "(fixnum by bignum)", "bignum.c:sexp_number_type"],
                       bound="bignum divisor shapes (L,H) enumerated: quick L<=2, thorough L<=3; the fixnum dividend, the divisor's words and sign symbolic",
                       instances=[{"name": "b%d_%d" % (lb, hb), "defs": {"LA": 1, "HA": 1, "LB": lb, "HB": hb}, "tiers": ["quick", "thorough"] if (lb, hb) in Q else ["thorough"]} for (lb, hb) in T],
                       unwindset=WORDS["unwindset"] + ",sexp_quotient:2,sexp_remainder:2",
                       stubs=WORDS["stubs"] + ["sexp_number_type", "sexp_bignum_quotient", "sexp_bignum_remainder", "sexp_bignum_fxrem", "sexp_double_to_bignum", "sexp_to_inexact"]))
def replay_repr(spec, inputs, workdir):
    hi, lo = int(inputs.get("in_hi", 0)), int(inputs.get("in_lo", 0))
    x = (hi << 64) | lo
    signed = spec["group"] == "from_lsint"
    if signed and x >= (1 << 127):
        x -= (1 << 128)
    fn = "sexp_make_integer_from_lsint" if signed else "sexp_make_unsigned_integer_from_luint"
    code = r"""
#include "chibi/eval.h"
#include "chibi/bignum.h"
int main(void){ sexp ctx = sexp_make_eval_context(NULL, NULL, NULL, 0, 0);
  %s x = (%s)(((unsigned __int128)%dUL << 64) | %dUL);
  sexp r = %s(ctx, x);
  if (sexp_fixnump(r)) printf("F %%ld\n", (long)sexp_unbox_fixnum(r));
  else { printf("B %%d %%lu", (int)sexp_bignum_sign(r), (unsigned long)sexp_bignum_length(r));
    for (unsigned long i = 0; i < sexp_bignum_length(r); i++) printf(" %%lu", sexp_bignum_data(r)[i]); printf("\n"); }
  return 0; }
""" % ("sexp_lsint_t" if signed else "sexp_luint_t", "sexp_lsint_t" if signed else "sexp_luint_t", hi, lo, fn)
    rc, o = native.run_driver(workdir, "replay_repr", code)
    line = [l for l in o.splitlines() if l[:2] in ("F ", "B ")]
    if not line:
        return False, o[-500:]
    t = line[0].split()
    got = int(t[1]) if t[0] == "F" else _val([int(w) for w in t[3:]], int(t[1]))
    return got != x, "%s(%d) -> %s (value %d)%s" % (fn, x, line[0], got, " MISMATCH" if got != x else "")


cb = []
for la in (1, 2, 3):
    for len0 in (0, 1, la + 1):
        for dm, lb in ((0, 1), (1, 1), (1, 3)):
            cb.append({"name": "a%d_len%d_dst%d_%d" % (la, len0, dm, lb),
                       "defs": {"LA": la, "HA": la, "LB": lb, "HB": 1, "LEN0": len0, "DSTMODE": dm},
                       "tiers": ["quick", "thorough"] if la <= 2 else ["thorough"]})
GROUPS.append(dict(WORDS, name="copy_bignum", entry="h_copy_bignum", stubs=["sexp_bignum_hi"], functions=["bignum.c:sexp_copy_bignum"],
                   bound="source length <= 3, requested length in {0, 1, L+1}, dst in {NULL, 1 word, 3 words}; contents symbolic", instances=cb))
REPR = {"replay": replay_repr, "harness": "harness/C04/repr.c", "label": "proved", "flags": SMALL, "link_src": ["harness/C04/stubs.c"], "unwind": 6,
        "min_obligations": 3, "timeout": 200, "instances": [{"name": "all_inputs"}],
        "assumptions": ["sexp_alloc_tagged_aux is alloc_plain (fresh zeroed object of exactly the requested size)"]}
GROUPS.append(dict(REPR, name="from_lsint", entry="h_from_lsint", functions=["bignum.c:sexp_make_integer_from_lsint", "bignum.c:sexp_make_bignum"]))
GROUPS.append(dict(REPR, name="from_luint", entry="h_from_luint", functions=["bignum.c:sexp_make_unsigned_integer_from_luint"]))
GROUPS.append(dict(REPR, name="fixnum_to_bignum", entry="h_fixnum_to_bignum", functions=["bignum.c:sexp_fixnum_to_bignum"]))
GROUPS.append(dict(REPR, name="number_type", entry="h_number_type", functions=["bignum.c:sexp_number_type"]))
GROUPS.append({"name": "hi", "label": "proved", "harness": "harness/C04/lenfns.c", "entry": "h_hi", "flags": SMALL,
               "link_src": ["harness/C04/stubs.c"], "loop_contracts": "harness/C04/hi_loops.json", "enforce": [],
               "functions": ["bignum.c:sexp_bignum_hi"], "min_obligations": 5, "timeout": 200,
               "bound": "none: loop closed by a loop contract (invariant + decreases), length symbolic up to 2^28 words",
               "instances": [{"name": "any_length"}], "expected_loops": {"sexp_bignum_hi": 1}})
# C04.1: fixnum fast paths of the VM arithmetic opcodes (extracted from vm.c on every run)
import os as _os
from vlib import core as _core, vmextract as _vmx
_VMDIR = _os.path.join(_core.BUILD, "C04", "vm")
_VMFLAGS = ["-I@BUILD@/shim_small", "-DVERIF_KINDFOLD=1"]
ARITH_OPS = {"ADD": 1, "SUB": 2, "MUL": 3, "QUOTIENT": 5, "REMAINDER": 6, "LT": 7, "LE": 8, "EQN": 9}


_RNDIR = _os.path.join(_core.BUILD, "C04", "readnum")


def extract_readnum():
    """Cut the digit-accumulation loop out of sexp_read_number (sexp.c of the current tree).
    Must-fire rules: the function header, exactly one loop header `for ( ; sexp_isxdigit(c); ...)`
    inside it, balanced braces, and the names the harness binds (val, tmp, c, digit, base, negativep)."""
    import re as _re
    src = open(_core.repo_file("sexp.c")).read()
    m = _re.search(r"^sexp sexp_read_number \(sexp ctx, sexp in, int base, int exactp\) \{$", src, _re.M)
    if not m:
        raise _core.Undecided("must-fire: sexp_read_number header not found in sexp.c")
    end = _re.search(r"^\}$", src[m.end():], _re.M)
    body = src[m.end():m.end() + end.start()]
    heads = list(_re.finditer(r"^  for \( ; sexp_isxdigit\(c\); c=sexp_read_char\(ctx, in\)\) \{$", body, _re.M))
    if len(heads) != 1:
        raise _core.Undecided("must-fire: digit loop header of sexp_read_number found %d times" % len(heads))
    i = heads[0].end(); depth = 1
    while depth and i < len(body):
        depth += {"{": 1, "}": -1}.get(body[i], 0); i += 1
    if depth:
        raise _core.Undecided("must-fire: unbalanced braces after the digit loop header")
    loop = body[heads[0].start():i]
    for nm in ("val", "tmp", "digit", "base", "negativep", "sexp_read_bignum"):
        if not _re.search(r"\b%s\b" % nm, loop):
            raise _core.Undecided("must-fire: digit loop of sexp_read_number no longer mentions %s" % nm)
    decl = body[:heads[0].start()]
    if not _re.search(r"sexp_sint_t val = 0, tmp = -1;", decl) or not _re.search(r"int c, digit, negativep = 0", decl):
        raise _core.Undecided("must-fire: declarations of val/tmp/c/digit in sexp_read_number changed")
    _os.makedirs(_RNDIR, exist_ok=True)
    _core._write_if_changed(_os.path.join(_RNDIR, "readnum_loop.inc"), loop + "\n")


def prepare(tier):
    extract_readnum()
    fl = [f.replace("@BUILD@", _core.BUILD) for f in _VMFLAGS]
    _vmx.write_ops(_VMDIR, sorted(ARITH_OPS), fl)
    # macros are expanded at extraction time: the MUL wrapper with the uninterpreted product is a separate extraction
    _vmx.write_ops(_VMDIR + "_uf", ["MUL"], fl + ["-DVERIF_UF_SMUL=1"])


from groups import C01 as _c01
for _op, _code in sorted(ARITH_OPS.items()):
    _d = {"OP": _op, "NARGS": 2, "EFFECT": "(-1)", "WORDS": 0, "CLS1": 6, "CLS2": 6, "ARITH": _code}
    _g = {"name": "vm_" + _op, "label": "proved", "harness": "harness/vm/generic.c", "entry": "h_op",
          "flags": _VMFLAGS + ["-I@BUILD@/C04/vm"], "link_src": ["harness/vm/stubs.c"], "unwind": 24,
          "units": [{"repo": "sexp.c", "remove_bodies": _c01.SEXP_STUBBED}],
          "functions": ["vm.c:sexp_apply:case SEXP_OP_%s (fixnum fast path)" % _op], "min_obligations": 5, "timeout": 300, "mem_gb": 3,
          "assumptions": ["generic entry points sexp_add/sub/mul/quotient/remainder/compare are recording stubs (hand-over targets); sexp_fixnum_to_bignum is a contract stub"],
          "bound": "none: all pairs of fixnums (loop-free)",
          "instances": [{"name": "fix_fix", "defs": _d}]}
    if _op == "MUL":
        _g["instances"] = [{"name": "fix_fix", "defs": dict(_d, VERIF_UF_SMUL=1)}]
        _g["flags"] = _VMFLAGS + ["-I@BUILD@/C04/vm_uf"]
        _g["assumptions"] = _g["assumptions"] + ["the signed 64x64->128 machine product is an uninterpreted function shared by code and specification: what is decided is the fixnum/bignum classification of the product and the hand-over"]
    if _op in ("QUOTIENT", "REMAINDER"):
        # 64-bit division equalities do not finish on any back end: constant divisors (all dividends) and small operand pairs
        _g["label"] = "bounded"
        _g["bound"] = "divisor in {1,-1,2,-2,3,-3,7,10,2^31,MIN_FIXNUM,MAX_FIXNUM,0} with ANY dividend, plus all operand pairs below 2^10 in magnitude"
        _g["instances"] = [{"name": "div_%s" % str(dv).replace("-", "m").replace("(", "").replace(")", "").replace("L", "").replace("<", "s"), "defs": dict(_d, DIVISOR=dv)}
                           for dv in ("1", "(-1)", "2", "(-2)", "3", "(-3)", "7", "10", "(1L<<31)", "SEXP_MIN_FIXNUM", "SEXP_MAX_FIXNUM", "0")]
        _g["instances"].append({"name": "small_pairs", "defs": dict(_d, SMALL_OPERANDS=10)})
    GROUPS.append(_g)
GROUPS.append({"name": "read_number_digits", "label": "proved", "harness": "harness/C04/readnum.c", "entry": "h_readnum_step",
               "flags": SMALL + ["-I@BUILD@/C04/readnum"], "unwind": 3, "min_obligations": 6, "timeout": 300, "mem_gb": 4, "replay": replay_readnum,
               "functions": ["sexp.c:sexp_read_number (digit-accumulation loop, extracted on every run)", "sexp.c:digit_value"],
               "bound": "none: inductive step of the loop invariant from an arbitrary invariant state (any val in the fixnum range, any character), so the loop is closed for every literal length",
               "assumptions": ["the loop text is cut out of sexp_read_number mechanically; prefix/sign parsing before it and the '.', '/', exponent and complex suffixes after it are not covered",
                               "libc isxdigit replaced by its C-locale definition (0-9, a-f, A-F)",
                               "sexp_read_char / sexp_push_char / sexp_read_bignum are recording stubs: the port and the bignum reader are outside this obligation"],
               "instances": [{"name": "base%d" % b, "defs": {"BASE": b}} for b in (2, 8, 10, 16)] + [{"name": "base_any", "tiers": ["thorough"]}]})
META = {
 "level": "other",
 "explanation": 'mixed: the integer<->word conversions, sexp_bignum_hi, sexp_number_type and the fixnum fast paths of the VM arithmetic opcodes are proved for all 2^64 / 2^124 inputs; bignum add/sub/compare/normalise/fxmul and the generic sexp_add/sub/quotient/remainder entry points are bounded by operand length (up to 3 words), contents symbolic.',
 "trusted_base": ["CBMC 6.11.0 front end, goto-instrument loop-contract instrumentation, SAT back end (MiniSat)",
                  "harness/prelude.h substitutions: exact-field accessors, sign test via shift (CBMC folds (sexp_sint_t)p < 0 to false), 128-bit shim",
                  "two's-complement wrap of signed arithmetic as GCC/Clang implement it (signed-overflow check off)"],
 "assumptions": ["mathematical value V(x) is a 704-bit bit-vector: exact for operands up to 10 words"],
 "not_covered": ["sexp_bignum_mul beyond the single-word multiplier path (Karatsuba identity needs nonlinear reasoning): functional correctness UNDECIDED",
                 "sexp_bignum_quot_rem, fxdiv, fxrem, sexp_bignum_expt, sexp_bignum_sqrt, gcd / ratio_normalize, double<->bignum: not decided by this technique (128-bit division equalities time out)",
                 "number text I/O (ports, snprintf), string->number/number->string", "Scheme-level procedures of init-7.scm / extras.scm",
                 "fixnum fast paths of the VM opcodes: see group vm_arith when present"],
}
