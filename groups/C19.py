import os, shutil
from vlib import core

GEN = os.path.join(core.BUILD, "C19", "gen")


def host_scheme():
    """An interpreter to run tools/chibi-ffi with (host tool only: the generator script and the
    .stub it translates are read from the working tree)."""
    exe = os.path.join(core.REPO, "_build", "chibi-scheme")
    env = {"LD_LIBRARY_PATH": os.path.join(core.REPO, "_build"), "CHIBI_IGNORE_SYSTEM_PATH": "1",
           "CHIBI_MODULE_PATH": "%s/lib:%s/_build/lib" % (core.REPO, core.REPO)}
    if not os.path.exists(exe):
        hb = os.path.join(core.BUILD, "hostbuild")
        rc, o, _ = core.sh(["sh", "-c", "cmake -G Ninja -S %s -B %s -DCMAKE_BUILD_TYPE=Release >/dev/null && cmake --build %s" % (core.REPO, hb, hb)], timeout=900)
        if rc != 0:
            raise core.Undecided("cannot build a host interpreter for chibi-ffi:\n" + o[-1500:])
        exe = os.path.join(hb, "chibi-scheme")
        env = {"LD_LIBRARY_PATH": hb, "CHIBI_IGNORE_SYSTEM_PATH": "1", "CHIBI_MODULE_PATH": "%s/lib:%s/lib" % (core.REPO, hb)}
    return exe, env


def prepare(tier):
    """Regenerate the C of lib/scheme/bytevector.stub with the repository's own tools/chibi-ffi
    (on a scratch copy: chibi-ffi writes next to its input)."""
    os.makedirs(GEN, exist_ok=True)
    shutil.copy(os.path.join(core.REPO, "lib/scheme/bytevector.stub"), os.path.join(GEN, "bytevector_gen.stub"))
    exe, env = host_scheme()
    e = dict(os.environ); e.update(env)
    import subprocess
    p = subprocess.run([exe, os.path.join(core.REPO, "tools/chibi-ffi"), os.path.join(GEN, "bytevector_gen.stub")],
                       env=e, stdout=subprocess.PIPE, stderr=subprocess.STDOUT, timeout=120)
    out = os.path.join(GEN, "bytevector_gen.c")
    if p.returncode != 0 or not os.path.exists(out):
        raise core.Undecided("chibi-ffi failed on bytevector.stub: " + p.stdout.decode()[-1500:])
    txt = open(out).read()
    n = txt.count("_stub (sexp ctx")
    if n < 38:
        raise core.Undecided("must-fire: expected >= 38 generated wrappers, found %d" % n)


MF = {"harness": "harness/C19/minifloat.c", "label": "proved", "stubs": ["sexp_user_exception"],
      "instances": [{"name": "all"}], "min_obligations": 1}
GROUPS = [
 dict(MF, name="quarter_roundtrip", entry="h_quarter_roundtrip", unwind=9, timeout=300,
      functions=["sexp.c:sexp_quarter_to_double", "sexp.c:sexp_double_to_quarter"],
      bound="none: binary search over a 124-entry table closes within 8 iterations (unwinding assertion at 9)"),
 dict(MF, name="quarter_table", entry="h_quarter_table", functions=["sexp.c:sexp_quarters[]"]),
 dict(MF, name="quarter_total", entry="h_quarter_total", unwind=9, timeout=300, functions=["sexp.c:sexp_double_to_quarter"]),
 dict(MF, name="half_roundtrip", entry="h_half_roundtrip", timeout=300,
      cbmc=["--drop-unused-functions", "--no-signed-overflow-check", "--no-undefined-shift-check"],
      functions=["sexp.c:sexp_half_to_double", "sexp.c:sexp_double_to_half", "sexp.c:float_as_int", "sexp.c:int_as_float"],
      assumptions=["half-float code uses a branch-free 'multiply the shifted term by 0' idiom whose shift counts exceed 31 on masked-out lanes; CBMC reports these as undefined shifts; --no-undefined-shift-check for this group (observation, not a C19 obligation)"]),
 dict(MF, name="half_total", entry="h_half_total", timeout=300,
      cbmc=["--drop-unused-functions", "--no-signed-overflow-check", "--no-undefined-shift-check"],
      functions=["sexp.c:sexp_double_to_half"]),
]

ACC = []   # (name, ref, set, W, KIND, ENDIAN)
ACC.append(("s8", "sexp_bytevector_s8_ref_stub", "sexp_bytevector_s8_set_x_stub", 1, 1, 0))
for sz, w in (("16", 2), ("32", 4), ("64", 8)):
    for sg, kind in (("u", 0), ("s", 1)):
        a = sg + sz
        ACC.append((a + "_native", "sexp_bytevector_%s_native_ref_stub" % a, "sexp_bytevector_%s_native_set_x_stub" % a, w, kind, 0))
        ACC.append((a, "sexp_bytevector_%s_ref_stub" % a, "sexp_bytevector_%s_set_x_stub" % a, w, kind, 1))
for nm, w in (("ieee_single", 4), ("ieee_double", 8)):
    ACC.append((nm + "_native", "sexp_bytevector_%s_native_ref_stub" % nm, "sexp_bytevector_%s_native_set_x_stub" % nm, w, 2, 0))
    ACC.append((nm, "sexp_bytevector_%s_ref_stub" % nm, "sexp_bytevector_%s_set_x_stub" % nm, w, 2, 1))

def replay_bv(spec, inputs, workdir):
    from vlib import native
    d = spec["defs"]
    k = int(inputs.get("in_k", "0")); v = int(inputs.get("in_v", "0"))
    is_set = spec.get("group") == "bv_set"
    args = "bv, sexp_make_fixnum(%dL)" % k
    if is_set:
        if d["KIND"] == 2:
            args += ", sexp_make_flonum(ctx, 1.5)"
        else:
            args += ", sexp_make_fixnum(1)"
    if d["ENDIAN"]:
        args += ", sexp_global(ctx, SEXP_G_ENDIANNESS)"
    fn = d["SET"] if is_set else d["REF"]
    code = r"""
#include "chibi/eval.h"
#include "%s/bytevector_gen.c"
int main(void){ sexp ctx = sexp_make_eval_context(NULL, NULL, NULL, 0, 0);
  sexp bv = sexp_make_bytes(ctx, sexp_make_fixnum(%d), sexp_make_fixnum(0));
  sexp r = %s(ctx, SEXP_FALSE, %d, %s);
  long k = %dL; int w = %d, len = %d;
  int inb = (k >= 0 && k + w <= len);
  printf("%s: len=%%d k=%%ld width=%%d -> %%s\n", len, k, w, sexp_exceptionp(r) ? "exception" : "NO exception");
  if (!inb && !sexp_exceptionp(r)) { printf("access outside the bytevector was not rejected\n"); return 1; }
  return 0; }
""" % (GEN, d["LEN"], fn, (3 if is_set else 2) + d["ENDIAN"], args, k, d["W"], d["LEN"], fn)
    rc, o = native.run_driver(workdir, "replay_bv", code)
    return rc == 1, o


def bv_instances():
    out = []
    for (nm, ref, st, w, kind, endian) in ACC:
        lens = sorted(set([max(w - 1, 0), w + 2] + ([0] if w == 1 else [])))
        for ln in lens:
            out.append({"name": "%s_len%d" % (nm, ln), "defs": {"REF": ref, "SET": st, "W": w, "KIND": kind, "ENDIAN": endian, "LEN": ln}})
    return out

BV = {"replay": replay_bv, "harness": "harness/C19/bvacc.c", "label": "proved", "flags": ["-I@BUILD@/C19/gen"], "link_src": ["harness/C19/bvstubs.c"],
      "unwind": 12, "min_obligations": 5, "timeout": 200, "mem_gb": 2,
      "bound": "none for the accessor (loop-free); the bytevector length is enumerated (W-1 and W+2 bytes, exact-size objects) because CBMC cannot take symbolic object sizes; index, contents, value, endianness symbolic",
      "assumptions": ["sexp_make_integer / sexp_make_unsigned_integer / sexp_make_flonum and the exception constructors are recording contract stubs",
                      "bytevector length enumerated: W-1, W+2 (and 0 for W=1); the accessors do not branch on the length except in the range assertion"]}
GROUPS += [
 dict(BV, name="bv_ref", entry="h_ref", instances=bv_instances(),
      functions=["lib/scheme/bytevector.stub(generated):%s" % a[1] for a in ACC]),
 dict(BV, name="bv_set", entry="h_set", instances=bv_instances(),
      functions=["lib/scheme/bytevector.stub(generated):%s" % a[2] for a in ACC]),
]

from groups import C01 as c01
JS = {"label": "proved", "harness": "harness/C19/json.c", "flags": ["-I@BUILD@/shim_small", "-DVERIF_KINDFOLD=1"], "link_src": ["harness/vm/stubs.c"],
      "units": [{"repo": "sexp.c", "remove_bodies": c01.SEXP_STUBBED + ["sexp_c_string"]}], "unwind": 16, "min_obligations": 4, "timeout": 300, "mem_gb": 4,
      "havoc_keep": ["json_read_string", "decode_useq", "digit_value", "verif_isxdigit", "verif_isdigit", "verif_tolower", "verif_isspace", "verif_registered", "verif_pointerp", "verif_fixnump", "verif_is_imm", "sexp_c_string", "sexp_utf8_encode_char", "sexp_utf8_char_byte_count", "run", "expect_cp", "hexval", "hexdigits", "verif_register"],
      "bound": "none for the escape under test (the string holds exactly one escape sequence and the closing quote; loops run a fixed number of times); all escape letters / hex digits symbolic",
      "assumptions": ["sexp_c_string is a recording stub (the bytes handed over are the contract)", "every other callee (the exception constructor) returns an arbitrary value", "string port with the whole text in its buffer", "isxdigit etc. have their C-locale definitions (glibc's locale tables are not modelled by CBMC)"]}
GROUPS += [
 dict(JS, name="json_escape", entry="h_json_escape", functions=["lib/chibi/json.c:json_read_string(two-character escapes)"], instances=[{"name": "all"}]),
 dict(JS, name="json_unicode", entry="h_json_unicode", functions=["lib/chibi/json.c:json_read_string(\\uXXXX)", "lib/chibi/json.c:decode_useq", "sexp.c:sexp_utf8_encode_char"], instances=[{"name": "bmp"}]),
 dict(JS, name="json_surrogates", entry="h_json_surrogates", functions=["lib/chibi/json.c:json_read_string(surrogate pairs)", "lib/chibi/json.c:decode_useq", "sexp.c:sexp_utf8_encode_char"], instances=[{"name": "pairs"}]),
]
GROUPS += [dict(JS, name="json_write_read", entry="h_json_write_read", unwind=20,
                functions=["lib/chibi/json.c:json_write_string", "lib/chibi/json.c:json_read_string", "sexp.c:sexp_string_utf8_ref", "sexp.c:sexp_utf8_initial_byte_count"],
                havoc_keep=JS["havoc_keep"] + ["json_write_string", "sexp_string_utf8_ref", "sexp_utf8_initial_byte_count", "sexp_buffered_write_string", "verif_snprintf", "verif_hex4"],
                cbmc=["--drop-unused-functions", "--no-signed-overflow-check", "--max-field-sensitivity-array-size", "128", "--no-pointer-check"],      # `i < end` compares two string cursors (tagged immediates held in sexp variables): CBMC's pointer-relation check has no object for them and leaves everything after it UNKNOWN; the functional obligations are what this group decides
                bound="strings of one character, every scalar value (UTF-8 width 1..4 enumerated, the code point symbolic)",
                assumptions=JS["assumptions"] + ["sexp_buffered_write_string appends to the port buffer (contract stub); snprintf is modelled for the two \\u%04lX formats only"],
                instances=[{"name": "w%d" % w, "defs": {"W": w}} for w in (1, 2, 3, 4)])]
def num_shapes():
    out = []
    for neg in (0, 1):
        for frac in (0, 1):
            for exp in (0, 1):
                for up in ((0, 1) if exp else (0,)):
                    for sg in ((0, 1, 2) if exp else (0,)):
                        v = frac | (exp << 1) | (up << 2) | (sg << 3) | (neg << 5)
                        out.append({"name": "%s%s%s" % ("neg_" if neg else "", "int" + (".frac" if frac else ""), ("%s%s" % ("E" if up else "e", ["", "+", "-"][sg])) if exp else ""), "defs": {"NUMSHAPE": v}})
    return out


GROUPS += [dict(JS, name="json_number", entry="h_json_number", label="bounded", unwind=12, functions=["lib/chibi/json.c:json_read_number"],
                havoc_keep=["json_read_number", "verif_isdigit", "verif_isxdigit", "verif_isspace", "verif_tolower", "pow", "fabs", "sexp_make_flonum", "verif_register", "verif_registered", "verif_pointerp", "verif_fixnump", "verif_is_imm"],
                bound="token shapes enumerated (sign, two integer digits, optional two-digit fraction, optional exponent with e/E, sign and two digits: 28 shapes); digits symbolic",
                assumptions=JS["assumptions"] + ["pow returns an arbitrary double and sexp_make_flonum is a recording stub: the numeric value is not specified in this group, only that the token is consumed and the kind of the result"],
                instances=num_shapes())]
META = {
 "level": "other",
 "explanation": "mixed: the minifloat conversions, the numeric bytevector accessors (all offsets, all values), the JSON string escapes and the JSON string writer/reader round trip are proved without bound (loop-free or fixed-count loops, full input domain); the JSON number reader is bounded (28 token shapes with two digits per part).",
 "trusted_base": ["CBMC 6.11.0 front end, SAT back end, bit-precise IEEE-754 float model (round-to-nearest-even)"],
 "assumptions": ["quarter code 128 (-0.0) re-encodes as 0 (+0.0): numerically equal, excluded from the round-trip clause"],
 "not_covered": ["base64, quoted-printable, URI, CSV, json.scm (Scheme)", "SRFI 160 accessors beyond those sharing the bytevector stub code"],
}
