def G(name, entry, fns, **kw):
    d = {"name": name, "label": "proved", "harness": "harness/C09/luint.c", "entry": entry,
         "functions": ["include/chibi/bignum.h:" + f for f in fns], "min_obligations": 1,
         "instances": [{"name": "all_inputs", "defs": {"SEXP_USE_CUSTOM_LONG_LONGS": 1}}], "timeout": 200}
    d.update(kw)
    return d

GROUPS = [
 G("addsub", "h_addsub", ["luint_add", "luint_add_uint", "luint_sub", "lsint_negate"]),
 G("shift", "h_shift", ["luint_shl", "luint_shr"]),
 G("cmp_conv", "h_cmp", ["luint_lt", "luint_eq", "luint_and", "lsint_lt_0", "sexp_lsint_fits_sint", "sexp_luint_fits_uint",
                         "luint_is_fixnum", "lsint_is_fixnum", "lsint_from_sint", "luint_from_uint", "lsint_to_sint", "luint_to_uint",
                         "lsint_to_sint_hi", "luint_to_uint_hi", "luint_from_lsint", "lsint_from_luint"]),
 G("mul", "h_mul", ["luint_mul_uint"], cbmc=["--drop-unused-functions", "--no-signed-overflow-check", "--cvc5"], timeout=400,
   assumptions=["group mul is discharged by the cvc5 1.0 SMT back end (QF_AUFBV); MiniSat did not finish in 200 s"]),
 G("smul", "h_smul", ["lsint_mul_sint"], stubs=["luint_mul_uint"], stub_src=["harness/C09/stubs.c"],
   assumptions=["lsint_mul_sint is verified against the contract of luint_mul_uint (an uninterpreted function of its arguments), not its body"]),
 G("div_early", "h_div_early", ["luint_div(early exits)"], unwind=2),
]
META = {
 "assumptions": ["the base-2^32 schoolbook expansion of a*b equals (u128)a*b (elementary algebra; the direct comparison with the native 128-bit product timed out at 300 s on every back end)",
                 "luint_div: only the early exits are decided; q = floor(a/b) for the 128-iteration shift-subtract loop is UNDECIDED (needs 256-bit nonlinear reasoning)"],
 "trusted_base": ["two's-complement wrap of signed arithmetic as implemented by GCC/Clang (CBMC reports -b for b == INT64_MIN in lsint_mul_sint as signed overflow; observation, not a C09 obligation)", "CBMC 6.11.0 front end and SAT back end", "CBMC's native unsigned __int128 arithmetic as the reference"],
 "not_covered": ["simplifier half of C09 (constant folding, let-propagation, dead-code removal are AST-to-AST rewrites whose correctness is a statement about program meaning, see C03)",
                 "lib/chibi/optimize.scm (Scheme)"],
}
