"""C05 groups: tail calls in constant space."""
import os
from vlib import core, vmextract
FLAGS = ["-I@BUILD@/shim_small", "-DVERIF_KINDFOLD=1", "-I@BUILD@/C05/vm"]
VMDIR = os.path.join(core.BUILD, "C05", "vm")
from groups import C01 as c01


def prepare(tier):
    vmextract.write_ops(VMDIR, ["TAIL_CALL", "CALL", "APPLY1"], [f.replace("@BUILD@", core.BUILD) for f in FLAGS[:2]])


def frames(tail):
    out = []
    for j0 in range(0, 4):
        for ntmp in (0, 1, 2, 5):
            for n in range(0, 4):
                quick = j0 <= 2 and ntmp <= 2 and n <= 2
                out.append({"name": "j%d_t%d_n%d" % (j0, ntmp, n), "defs": {"J0": j0, "NTMP": ntmp, "N": n, "TAIL": tail},
                            "tiers": ["quick", "thorough"] if quick else ["thorough"]})
    return out


VMG = {"label": "bounded", "harness": "harness/C05/tailcall.c", "entry": "h_tail_call", "flags": FLAGS, "link_src": ["harness/vm/stubs.c"],
       "units": [{"repo": "sexp.c", "remove_bodies": c01.SEXP_STUBBED}], "unwind": 10, "min_obligations": 10, "timeout": 200, "mem_gb": 3,
       "bound": "frame shapes enumerated: caller arity j0 <= 3, caller temporaries in {0,1,2,5}, call arguments n <= 3 (quick: <= 2); slot contents symbolic. The frame equations are linear in the three shapes; the unbounded statement is argued from them on paper.",
       "assumptions": ["callee is a non-variadic procedure of matching arity with max_depth 4 and enough stack (the growth path is checked under C01/C05 grow_stack)",
                       "opcode bodies extracted from vm.c (vlib/vmextract.py); exception constructors and sexp_cons are contract stubs"]}
GROUPS = [
 dict(VMG, name="tail_call_frame", functions=["vm.c:sexp_apply:case SEXP_OP_TAIL_CALL", "vm.c:sexp_apply:make_call"], instances=frames(1)),
 dict(VMG, name="call_frame", functions=["vm.c:sexp_apply:case SEXP_OP_CALL", "vm.c:sexp_apply:make_call"], instances=frames(0)),
]
def vframes(tail):
    out = []
    for j0 in (0, 2):
        for ntmp in (0, 2):
            for nfix in (0, 1, 2):
                for extra in (0, 1, 2):
                    quick = (j0, ntmp) == (2, 2) and (nfix, extra) in ((0, 0), (1, 2), (2, 1))
                    out.append({"name": "j%d_t%d_f%d_x%d" % (j0, ntmp, nfix, extra), "defs": {"J0": j0, "NTMP": ntmp, "N": nfix + extra, "EXTRA": extra, "VARIADIC": 1, "TAIL": tail},
                                "tiers": ["quick", "thorough"] if quick else ["thorough"]})
    return out


GROUPS += [
 dict(VMG, name="tail_call_variadic", functions=["vm.c:sexp_apply:case SEXP_OP_TAIL_CALL", "vm.c:sexp_apply:make_call(variadic callee)"], instances=vframes(1),
      flags=VMG["flags"] + ["-DVM_NPAIRS=6"], bound="variadic callee with 0..2 fixed parameters and 0..2 rest arguments; caller arity 0 or 2, temporaries 0 or 2 (quick: 3 shapes); slot contents symbolic",
      assumptions=["callee is a variadic procedure that uses its rest list, max_depth 4, enough stack", "opcode bodies extracted from vm.c (vlib/vmextract.py); exception constructors and sexp_cons are contract stubs"]),
 dict(VMG, name="call_variadic", functions=["vm.c:sexp_apply:case SEXP_OP_CALL", "vm.c:sexp_apply:make_call(variadic callee)"], instances=vframes(0),
      flags=VMG["flags"] + ["-DVM_NPAIRS=6"], bound="the same shapes for a non-tail call",
      assumptions=["callee is a variadic procedure that uses its rest list, max_depth 4, enough stack", "opcode bodies extracted from vm.c (vlib/vmextract.py); exception constructors and sexp_cons are contract stubs"]),
]
GEN = {"label": "bounded", "harness": "harness/C05/gen.c", "flags": FLAGS[:2], "stubs": ["sexp_generate"],
       "stub_src": ["harness/C05/genstubs.c"], "unwind": 10, "min_obligations": 4, "timeout": 200, "mem_gb": 3,
       "bound": "AST shapes: a conditional, a sequence of 3 forms, an application with 2 arguments; entry tail flag and NO_TAIL_CALLS_P symbolic",
       "assumptions": ["sexp_generate is replaced by a recording stub that may leave the tail flag in any state; sexp_emit records the opcode; sexp_expand_bcode, cons, length, reverse, memq are stubs"],
       "instances": [{"name": "default"}]}
GROUPS.append(dict(GEN, name="generate_cnd", entry="h_generate_cnd", functions=["vm.c:generate_cnd"]))
GROUPS.append(dict(GEN, name="generate_seq", entry="h_generate_seq", functions=["vm.c:generate_seq"]))
GROUPS.append(dict(GEN, name="generate_general_app", entry="h_generate_general_app", functions=["vm.c:generate_general_app"]))
GROUPS.append({"name": "grow_stack", "label": "bounded", "harness": "harness/C05/grow.c", "entry": "h_grow_stack", "flags": FLAGS[:2],
               "link_src": [], "unwind": 40, "min_obligations": 5, "timeout": 200, "mem_gb": 3, "functions": ["vm.c:sexp_grow_stack"],
               "bound": "old stack of 8 slots (16 for the refused case), SEXP_MAX_STACK_SIZE set to 16 or 1024 per instance, requested minimum in {0, 20, 40}; published top and slot contents symbolic",
               "assumptions": ["sexp_alloc_tagged_aux is alloc_plain (one fresh object of the requested size)", "precondition top + 1 < length (maintained by sexp_ensure_stack with its 64-slot margin)"],
               "instances": [{"name": "double", "defs": {"LEN": 8, "MINSZ": 0, "SEXP_MAX_STACK_SIZE": 1024}},
                             {"name": "min_larger", "defs": {"LEN": 8, "MINSZ": 20, "SEXP_MAX_STACK_SIZE": 1024}},
                             {"name": "capped", "defs": {"LEN": 8, "MINSZ": 40, "SEXP_MAX_STACK_SIZE": 16}},
                             {"name": "refused", "defs": {"LEN": 16, "MINSZ": 40, "SEXP_MAX_STACK_SIZE": 16}}]})
GROUPS.append(dict(VMG, name="apply1_grow", entry="h_apply1_grow", functions=["vm.c:sexp_apply:case SEXP_OP_APPLY1", "vm.c:sexp_ensure_stack (macro)", "vm.c:sexp_grow_stack"],
                   units=[{"repo": "sexp.c", "remove_bodies": c01.SEXP_STUBBED + ["sexp_length_op"]}], unwind=40, unwindset="verif_op_APPLY1.0:4,verif_op_APPLY1.1:4,verif_op_APPLY1.2:4,sexp_length_op.0:6",
                   cbmc=["--drop-unused-functions", "--no-signed-overflow-check", "--max-field-sensitivity-array-size", "200"],
                   bound="caller arity j0 <= 2, temporaries <= 2, one spread argument; stack of 80 slots so that growth is forced; slot contents symbolic",
                   instances=[{"name": "j%d_t%d" % (j0, nt), "defs": {"J0": j0, "NTMP": nt, "N": 1, "TAIL": 1, "GROW": 1, "VM_STACK_SLOTS": 80}} for j0 in (0, 2) for nt in (0, 2)]))
META = {
 "level": "other",
 "explanation": "bounded deductive check: every obligation is over frame / AST shapes enumerated per instance (contents symbolic); no unbounded (proved) obligation is claimed for C05",
 "trusted_base": ["CBMC 6.11.0 front end and SAT back end", "vlib/vmextract.py opcode extraction (drops the dispatch loop)", "harness/prelude.h substitutions"],
 "assumptions": ["the unbounded statement (N iterations of a tail-recursive loop run in constant stack) follows from 'no frame growth per tail call' by induction on N: argued on paper, not machine-checked",
                 "sexp_generate never raises the tail flag (exit flag is the entry flag or cleared): assumed of the recursive dispatcher, checked for generate_cnd / generate_seq / generate_general_app"],
 "not_covered": ["that the macros of init-7.scm expand cond/case/and/or/do/named let keeping tail position (Scheme)", "generate_opcode_app / generate_tail_jump / generate_lambda flag handling", "opcode callees and variadic callees that ignore their rest list (SEXP_PROC_UNUSED_REST) in make_call",
                 "'beyond the configured maximum an out-of-stack error object is returned' end to end (sexp_grow_stack's refusal is checked; the error propagation through sexp_apply's epilogue is not)"],
}
