"""C11 groups: SRFI-18 primitives and scheduler (lib/srfi/18/threads.c)."""
FLAGS = ["-I@BUILD@/shim_small", "-DVERIF_KINDFOLD=1", "-DVM_NPAIRS=12"]
BASE = {"label": "bounded", "harness": "harness/C11/threads.c", "flags": FLAGS, "link_src": ["harness/C11/stubs.c"], "unwind": 7, "min_obligations": 3, "timeout": 400, "mem_gb": 4,
        "bound": "scheduler states enumerated by shape: paused list of up to 3 and runnable queue of up to 2 of the 4 threads; awaited events, time-outs (0..3 s), clock, lock state, owner and flags symbolic",
        "assumptions": ["sexp_cons / sexp_memq replaced by contract stubs; gettimeofday returns a symbolic clock, usleep does nothing", "wake-up times are absolute clock values of at least one second (tv_sec >= 1), or zero for untimed waits", "no pending signals and no threads blocked on file descriptors (the poll / signal-runner sections of the scheduler are not entered)",
                        "the paused list is ordered as sexp_insert_timed keeps it (assumed on entry, proved on exit of every primitive that inserts)"]}
SHAPES = [(9, 9), (1, 9), (9, 3), (1, 3), (12, 9), (12, 3), (21, 3), (1, 32), (9, 32), (123, 9)]
def inst(shapes): return [{"name": "p%s_r%s" % (p, r), "defs": {"PAUSED": p, "RUN": r}} for p, r in shapes]
NO3 = [(p, r) for p, r in SHAPES if "3" not in str(p) + str(r)] + [(2, 9), (12, 9)]
SCHED = SHAPES + [(0, 9), (0, 3), (10, 3), (1, 3), (102, 3), (120, 9), (20, 31)]
def replay_sched(spec, inputs, workdir):
    """the counterexample state rebuilt with real contexts and pairs, the real sexp_scheduler (clock stubbed with the
    counterexample's time), then: every live thread exactly once among result / runnable queue / paused list"""
    from vlib import native
    d = spec["defs"]
    def g(k, dflt=0):
        for key in (k, k.replace("[", "[").replace("]", "l]")):
            if key in inputs:
                try:
                    return int(inputs[key])
                except ValueError:
                    return dflt
        return dflt
    pid = [int(c) for c in str(d["PAUSED"]) if c != "9"]; rid = [int(c) for c in str(d["RUN"]) if c != "9"]
    ev = [d.get("E%d" % k, g("in_evt[%d]" % k, 2)) for k in range(4)]
    lines = []
    for k in pid:
        lines.append("sexp_context_waitp(T[%d]) = 1; sexp_context_event(T[%d]) = %s; sexp_context_timeval(T[%d]).tv_sec = %d; sexp_context_timeval(T[%d]).tv_usec = %d;" %
                     (k, k, ["mx", "cv", "SEXP_FALSE", "T[0]"][ev[k]], k, g("in_tv[%d]" % k), k, g("in_tvu[%d]" % k)))
    code = r"""
#include <unistd.h>
#include <sys/time.h>
static long now_sec = %d, now_usec = %d;
static int verif_gettimeofday(struct timeval *tv, void *tz) { tv->tv_sec = now_sec; tv->tv_usec = now_usec; return 0; }
static int verif_usleep(unsigned u) { return 0; }
#define gettimeofday(tv, tz) verif_gettimeofday(tv, tz)
#define usleep verif_usleep
#include "%s/lib/srfi/18/threads.c"
#undef gettimeofday
static int count(sexp ls, sexp x) { int n = 0, d = 0; for ( ; sexp_pairp(ls) && d < 20; ls = sexp_cdr(ls), d++) if (sexp_car(ls) == x) n++; return d >= 20 ? 99 : n; }
int main(void) { sexp T[4], mx, cv, ls, res; int k, bad = 0, pid[] = {%s -1}, rid[] = {%s -1}, was[4] = {0,0,0,0};
  T[0] = sexp_make_eval_context(NULL, NULL, NULL, 0, 0);
  for (k = 1; k < 4; k++) { T[k] = sexp_make_child_context(T[0], NULL); sexp_preserve_object(T[0], T[k]); }
  mx = sexp_cons(T[0], SEXP_FALSE, SEXP_FALSE); cv = sexp_cons(T[0], SEXP_FALSE, SEXP_FALSE); sexp_preserve_object(T[0], mx); sexp_preserve_object(T[0], cv);
  for (k = 0; k < 4; k++) { sexp_context_refuel(T[k]) = 500; sexp_context_waitp(T[k]) = 0; sexp_context_timeoutp(T[k]) = 0; sexp_context_event(T[k]) = SEXP_FALSE; }
  sexp_context_refuel(T[0]) = %d ? 500 : 0; sexp_context_waitp(T[0]) = %d;
  %s
  sexp_global(T[0], SEXP_G_THREADS_SIGNALS) = SEXP_ZERO;
  ls = SEXP_NULL; for (k = 0; pid[k] >= 0; k++) ; for (k--; k >= 0; k--) { ls = sexp_cons(T[0], T[pid[k]], ls); was[pid[k]]++; } sexp_global(T[0], SEXP_G_THREADS_PAUSED) = ls;
  ls = SEXP_NULL; for (k = 0; rid[k] >= 0; k++) ; for (k--; k >= 0; k--) { ls = sexp_cons(T[0], T[rid[k]], ls); was[rid[k]]++; if (ls && !sexp_pairp(sexp_cdr(ls))) sexp_global(T[0], SEXP_G_THREADS_BACK) = ls; }
  sexp_global(T[0], SEXP_G_THREADS_FRONT) = ls; if (!sexp_pairp(ls)) sexp_global(T[0], SEXP_G_THREADS_BACK) = SEXP_NULL;
  if (!was[0] && sexp_context_refuel(T[0]) > 0) was[0] = 1;
  res = sexp_scheduler(T[0], NULL, 1, T[0]);
  for (k = 0; k < 4; k++) { int inl = count(sexp_global(T[0], SEXP_G_THREADS_PAUSED), T[k]) + count(sexp_global(T[0], SEXP_G_THREADS_FRONT), T[k]); int is = inl + (res == T[k] && inl == 0);
    printf("thread %%d: before %%d, after %%d%%s\n", k, was[k], is, (was[k] > 0 && is != 1) ? "  <-- lost or duplicated" : "");
    if (was[k] > 0 && is != 1) bad = 1; }
  return bad; }
""" % (g("in_now_sec", 3), g("in_now_usec", 0), native.core.REPO, "".join("%d, " % k for k in pid), "".join("%d, " % k for k in rid), g("in_refuel0", 1), g("in_wait0", 0), "\n  ".join(lines))
    rc, o = native.run_driver(workdir, "replay_sched", code, asan=False)
    return rc == 1, o


QUICK2 = {"p12_r3_e30", "p12_r9_e32", "p10_r3_e30", "p10_r3_e22", "p12_r3_e03", "p12_r3_e22", "p12_r9_e33", "p21_r3_e10", "p12_r9_e12"}
def sched_inst():
    out = []
    for p, r in sorted(set(SCHED)):
        ids = [int(c) for c in str(p) if c != "9"]
        import itertools
        for combo in itertools.product(range(4), repeat=len(ids)):
            ev = {0: 2, 1: 2, 2: 2, 3: 2}
            skip = False
            for k, e in zip(ids, combo):
                ev[k] = e
                if k == 0 and e == 3:
                    skip = True        # the caller does not join itself
            if skip:
                continue
            name = "p%s_r%s_e%s" % (p, r, "".join(str(e) for e in combo) or "-")
            quick = len(ids) <= 1 or name in QUICK2
            out.append({"name": "p%s_r%s_e%s" % (p, r, "".join(str(e) for e in combo) or "-"), "defs": {"PAUSED": p, "RUN": r, "E0": ev[0], "E1": ev[1], "E2": ev[2], "E3": ev[3]},
                        "tiers": ["quick", "thorough"] if quick else ["thorough"]})
    return out
F = "lib/srfi/18/threads.c:"
GROUPS = [
 dict(BASE, name="mutex_lock", entry="h_mutex_lock", functions=[F + "sexp_mutex_lock", F + "sexp_insert_timed", F + "sexp_delete_list"], instances=inst(SHAPES)),
 dict(BASE, name="mutex_unlock", entry="h_mutex_unlock", functions=[F + "sexp_mutex_unlock"], instances=inst(SHAPES)),
 dict(BASE, name="mutex_unlock_cv", entry="h_mutex_unlock", flags=FLAGS + ["-DWITH_CV=1"], functions=[F + "sexp_mutex_unlock", F + "sexp_insert_timed"], instances=inst(SHAPES)),
 dict(BASE, name="condvar_signal", entry="h_condvar_signal", functions=[F + "sexp_condition_variable_signal"], instances=inst(SHAPES)),
 dict(BASE, name="condvar_broadcast", entry="h_condvar_broadcast", functions=[F + "sexp_condition_variable_broadcast"], instances=inst(SHAPES)),
 dict(BASE, name="thread_start", entry="h_thread_start", functions=[F + "sexp_thread_start"], instances=inst(sorted(set(NO3)))),
 dict(BASE, name="thread_sleep", entry="h_thread_sleep", functions=[F + "sexp_thread_sleep", F + "sexp_insert_timed"], instances=inst(SHAPES)),
 dict(BASE, name="thread_join", entry="h_thread_join", functions=[F + "sexp_thread_join", F + "sexp_insert_timed"], instances=inst(sorted(set(NO3)))),
 dict(BASE, name="thread_terminate", entry="h_thread_terminate", functions=[F + "sexp_thread_terminate", F + "sexp_delete_list", F + "sexp_thread_start"], instances=inst([(9, 9), (1, 9), (3, 9), (13, 9), (31, 2), (9, 3), (1, 3), (12, 3), (9, 32)])),
 dict(BASE, replay=replay_sched, name="scheduler", entry="h_scheduler", functions=[F + "sexp_scheduler", F + "sexp_insert_timed", F + "sexp_delete_list"], instances=sched_inst()),
]
META = {
 "level": "other",
 "explanation": "bounded deductive check: each SRFI-18 primitive (one VM instruction each) and the scheduler, started in any well-formed scheduler state of an enumerated shape (lists of up to 3 paused and 2 runnable threads; events, time-outs, clock, lock state symbolic), ends in a well-formed state and moves exactly the threads its contract names. The statement over all interleavings of whole programs is argued from these per-step contracts, not decided.",
 "trusted_base": ["CBMC 6.11.0 (MiniSat)", "harness/prelude.h substitutions incl. pointer tests on registered objects (VERIF_KINDFOLD)"],
 "assumptions": [],
 "not_covered": ["the composition: that the Scheme retry loops of lib/srfi/18/interface.scm around the primitives (mutex-lock!, mutex-unlock! with condition variable, thread-join!) terminate and re-check under every interleaving (Scheme code; no verifier)",
                 "the fuel countdown and context switch in the VM loop (vm.c:1103-1152) and pre-emption points", "signal handling and threads blocked on file descriptors (poll section of the scheduler), termination of child contexts, thread-local parameters, dynamic-wind",
                 "the 10 ms nap / busy-wait section of the scheduler beyond membership of the lists (which thread is chosen when every thread waits)", "more than 4 threads"],
}
