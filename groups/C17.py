"""C17 groups: lib/srfi/151/bit.c."""
from groups import C04 as c04
SMALL = ["-I@BUILD@/shim_small", "-DVERIF_KINDFOLD=1"]
from vlib import native


def _val(words, sign):
    return sign * sum(w << (64 * i) for i, w in enumerate(words))


def replay_bits(spec, inputs, workdir):
    """Exact-length operands rebuilt in a real context of the current tree; oracle: Python integers."""
    d, grp = dict(spec["defs"]), spec["group"]
    if grp == "shift_fixnum":
        grp = "shift"; d["KA"] = 0
    gi = lambda k, dv=0: int(inputs.get(k, dv))
    A = [gi("in_a[%dl]" % i) for i in range(d.get("HA", 1))]
    B = [gi("in_b[%dl]" % i) for i in range(d.get("HB", 1))]
    sa, sb = d.get("SGA", 1), d.get("SGB", 1)
    vx = _val(A, sa) if d.get("KA", 1) else gi("in_f")
    vy = _val(B, sb) if d.get("KB", 1) else gi("in_g")
    c = gi("in_c")
    mk = lambda nm, L, words, sg: ("sexp %s = sexp_make_bignum(ctx, %d); sexp_bignum_sign(%s) = %d;" % (nm, L, nm, sg)
                                   + "".join(" sexp_bignum_data(%s)[%d] = %dUL;" % (nm, i, w) for i, w in enumerate(words)))
    X = mk("x", d.get("LA", 1), A, sa) if d.get("KA", 1) else "sexp x = sexp_make_fixnum(%dL);" % vx
    Y = mk("y", d.get("LB", 1), B, sb) if d.get("KB", 1) else "sexp y = sexp_make_fixnum(%dL);" % vy
    popc = lambda v: bin(v if v >= 0 else ~v).count("1")
    table = {
        "bit_and": ("sexp_bit_and(ctx, SEXP_FALSE, 2, x, y)", vx & vy), "bit_ior": ("sexp_bit_ior(ctx, SEXP_FALSE, 2, x, y)", vx | vy),
        "bit_xor": ("sexp_bit_xor(ctx, SEXP_FALSE, 2, x, y)", vx ^ vy),
        "bit_count": ("sexp_bit_count(ctx, SEXP_FALSE, 1, x)", popc(vx)),
        "integer_length": ("sexp_integer_length(ctx, SEXP_FALSE, 1, x)", (vx if vx >= 0 else ~vx).bit_length()),
        "bit_set_p": ("sexp_bit_set_p(ctx, SEXP_FALSE, 2, sexp_make_fixnum(%dL), x)" % c, (vx >> max(c, 0)) & 1),
        "shift": ("sexp_arithmetic_shift(ctx, SEXP_FALSE, 2, x, sexp_make_fixnum(%dL))" % c, (vx << c) if c >= 0 else (vx >> -c)),
    }
    call, want = table[grp]
    code = r"""
#include "chibi/eval.h"
#include "chibi/bignum.h"
#include "lib/srfi/151/bit.c"
int main(void){ sexp ctx = sexp_make_eval_context(NULL, NULL, NULL, 0, 0);
  %s
  %s
  sexp r = %s;
  if (sexp_fixnump(r)) printf("F %%ld\n", (long)sexp_unbox_fixnum(r));
  else if (sexp_bignump(r)) { printf("B %%d %%lu", (int)sexp_bignum_sign(r), (unsigned long)sexp_bignum_length(r));
    for (unsigned long i = 0; i < sexp_bignum_length(r); i++) printf(" %%lu", sexp_bignum_data(r)[i]); printf("\n"); }
  else if (r == SEXP_TRUE) printf("F 1\n"); else if (r == SEXP_FALSE) printf("F 0\n"); else printf("O %%p\n", (void*)r);
  return 0; }
""" % (X, Y if "y" in call else "", call)
    rc, o = native.run_driver(workdir, "replay_bits", code)
    line = [l for l in o.splitlines() if l[:2] in ("F ", "B ", "O ")]
    txt = "%s with x=%d y=%d count/index=%d\nnative: %s\nexpected %d\n" % (call, vx, vy, c, o.strip()[-300:], want)
    if rc != 0 or not line:
        return ("AddressSanitizer" in o), txt
    t = line[0].split()
    if t[0] == "O":
        return True, txt + "result is not an exact integer\n"
    got = int(t[1]) if t[0] == "F" else _val([int(w) for w in t[3:]], int(t[1]))
    return got != want, txt + ("MISMATCH: got %d\n" % got if got != want else "agrees\n")


BASE = {"harness": "harness/C17/bits.c", "label": "bounded", "flags": SMALL,
        "units": [{"repo": "bignum.c", "remove_bodies": ["sexp_bignum_hi", "sexp_copy_bignum", "sexp_bignum_fxadd", "sexp_bignum_fxsub"]}],
        "stub_defs": ["sexp_bignum_hi", "sexp_copy_bignum", "sexp_bignum_fxadd", "sexp_bignum_fxsub"], "stub_src": ["harness/C04/stubs.c"],
        "unwind": 12, "unwindset": "sexp_arithmetic_shift:2,integer_log2:3,log2i.0:66",
        "min_obligations": 5, "timeout": 240, "mem_gb": 3, "replay": replay_bits,
        "assumptions": ["sexp_bignum_hi, sexp_copy_bignum, sexp_bignum_fxadd replaced by their contracts (each checked against its real body under C04)",
                        "sexp_alloc_tagged_aux is alloc_plain: fresh zeroed object of exactly the requested size",
                        "two's-complement value of an operand: V(x) sign-extended to 704 bits"]}
Q = [(1, 1), (2, 2)]
T = [(1, 1), (2, 1), (2, 2), (3, 2), (3, 3)]


def binop_instances():
    out = []
    for ka, kb in ((1, 1), (0, 0)):
        ashapes = T if ka else [(1, 1)]
        bshapes = T if kb else [(1, 1)]
        for (la, ha) in ashapes:
            for (lb, hb) in bshapes:
                for sa in (1, -1):
                    for sb in (1, -1):
                        quick = ((not ka) or (la, ha) in Q) and ((not kb) or (lb, hb) in Q)
                        inst = {"name": "k%d%d_a%d_%d%s_b%d_%d%s" % (ka, kb, la, ha, "p" if sa > 0 else "n", lb, hb, "p" if sb > 0 else "n"),
                                "defs": {"KA": ka, "KB": kb, "LA": la, "HA": ha, "LB": lb, "HB": hb, "SGA": sa, "SGB": sb},
                                "tiers": ["quick", "thorough"] if quick else ["thorough"]}
                        if not ka and not kb:
                            # two fixnums: the bignum arm is infeasible; its first callee becomes a "not reached" obligation
                            inst["stubs"] = ["sexp_bignum_bit_op"]
                            inst["stub_defs"] = BASE["stub_defs"]
                            inst["label"] = "proved"
                        out.append(inst)
    return out


def unop_instances():
    out = []
    for ka in (1, 0):
        for (la, ha) in (T if ka else [(1, 1)]):
            for sa in (1, -1):
                quick = (not ka) or (la, ha) in Q
                out.append({"name": "k%d_a%d_%d%s" % (ka, la, ha, "p" if sa > 0 else "n"),
                            "defs": {"KA": ka, "LA": la, "HA": ha, "SGA": sa},
                            "tiers": ["quick", "thorough"] if quick else ["thorough"]})
    return out


B2 = "operand kinds (fixnum/bignum), allocated and significant lengths (quick: 1 and 2 words; thorough: up to 3 words incl. spare zero words) and signs enumerated; words / fixnum values symbolic"
GROUPS = []
for nm in ("bit_and", "bit_ior", "bit_xor"):
    GROUPS.append(dict(BASE, name=nm, entry="h_" + nm, functions=["lib/srfi/151/bit.c:sexp_" + nm, "lib/srfi/151/bit.c:sexp_bignum_bit_op", "lib/srfi/151/bit.c:sexp_bignum_twos_complement_word"], bound=B2, instances=binop_instances()))
for nm in ("bit_count", "integer_length", "bit_set_p"):
    GROUPS.append(dict(BASE, name=nm, entry="h_" + nm, functions=["lib/srfi/151/bit.c:sexp_" + nm], bound=B2, instances=unop_instances(),
                       ))
def shift_instances():
    out = []
    for ka in (1,):
        for (la, ha) in (T if ka else [(1, 1)]):
            for sa in (1, -1):
                for d in (1, -1):
                    for off in (0, 1, 2, 3):
                        for bs in ((-1,) if sa > 0 else (0, 1, 63)):
                            quick = ((not ka) or (la, ha) in Q) and off <= 2 and not (bs < 0 and d < 0 and off > ha)
                            out.append({"name": "k%d_a%d_%d%s_%s%d_%s" % (ka, la, ha, "p" if sa > 0 else "n", "l" if d > 0 else "r", off, "bsym" if bs < 0 else "b%d" % bs),
                                        "defs": {"KA": ka, "LA": la, "HA": ha, "SGA": sa, "DIR": d, "OFF": off, "BS": bs, "BN_WIDE_BITS": 512},
                                        "tiers": ["quick", "thorough"] if quick else ["thorough"]})
    return out
GROUPS.append(dict(BASE, name="shift", entry="h_shift", functions=["lib/srfi/151/bit.c:sexp_arithmetic_shift", "lib/srfi/151/bit.c:log2i"],
                   bound=B2 + "; shift count = +-(64*OFF + bs), word offset OFF in 0..3 enumerated; bit shift bs symbolic over 0..63 for non-negative operands, enumerated {0,1,63} for negative operands (the symbolic form exceeded 240 s)", instances=shift_instances()))
GROUPS.append(dict(BASE, name="shift_fixnum", entry="h_shift_fixnum", label="proved",
                   units=[{"repo": "bignum.c", "remove_bodies": ["sexp_bignum_hi", "sexp_copy_bignum", "sexp_bignum_fxadd", "sexp_bignum_fxsub"]}],
                   stub_defs=["HANDOVER_sexp_bignum_hi", "sexp_copy_bignum", "sexp_bignum_fxadd", "sexp_bignum_fxsub"],
                   functions=["lib/srfi/151/bit.c:sexp_arithmetic_shift(fixnum path)", "lib/srfi/151/bit.c:log2i"],
                   unwindset="sexp_arithmetic_shift:2,log2i.0:66", bound="none: all fixnum operands and all fixnum counts; log2i unwound to its 64-step maximum",
                   instances=[{"name": "all_fixnums", "defs": {"LA": 1, "HA": 1, "KA": 0}}]))
META = {
 "level": "other",
 "explanation": 'mixed: the fixnum path of arithmetic-shift is proved for all fixnums and shift counts; and/ior/xor, bit-count, integer-length, bit-set? and the bignum shifts are bounded by operand length (up to 3 words) with symbolic contents.',
 "trusted_base": ["CBMC 6.11.0 front end and SAT back end", "harness/prelude.h substitutions (exact-field accessors, sign test via shift, kind tests on registered objects under VERIF_KINDFOLD)",
                  "two's-complement wrap of signed arithmetic as GCC/Clang implement it"],
 "assumptions": ["registered heap objects are 8-byte aligned (kind tests on them return what an aligned pointer gives)",
                 "two's-complement semantics stated on the mathematical value sign-extended to 704 (512 for shifts) bits: exact for the enumerated operand sizes"],
 "not_covered": ["mixed fixnum/bignum operand pairs of bit-and/ior/xor: the dispatch on a symbolic fixnum is not foldable by CBMC (every instance exceeded 240 s); the fixnum is converted by sexp_fixnum_to_bignum (C04) and then takes the bignum x bignum core covered here",
                 "bignum operands of arithmetic-shift with a negative sign and a SYMBOLIC bit shift (enumerated bit shifts 0, 1, 63 instead)",
                 "bitwise.scm field operations (Scheme)", "SRFI 33 / 142 wrappers (Scheme)"],
}
