"""C10 groups: heap well-formedness (gc.c)."""
import os, re
from vlib import core
GENDIR = os.path.join(core.BUILD, "C10gen")
# source text of the variable-size constructor sites that harness/C10/sizes.c mirrors (must be present, else Undecided)
VAR_SITES = [("sexp.c", "sexp_alloc_tagged(ctx, sexp_sizeof(vector) + clen*sizeof(sexp),"), ("sexp.c", "sexp_vector_length(vec) = clen;"),
             ("sexp.c", "sexp_alloc_atomic(ctx, sexp_sizeof(bytes)+clen+1);"), ("sexp.c", "sexp_bytes_length(s) = clen;"),
             ("sexp.c", "sexp_pointer_tag(sym) = SEXP_SYMBOL;"),
             ("bignum.c", "sexp_uint_t size = sexp_sizeof(bignum) + len*sizeof(sexp_uint_t);"), ("bignum.c", "size = sexp_sizeof(bignum) + len*sizeof(sexp_uint_t);"),
             ("include/chibi/sexp.h", "#define sexp_alloc_bytecode(ctx, i) sexp_alloc_tagged(ctx, sexp_sizeof(bytecode) + i, SEXP_BYTECODE)"),
             ("vm.c", "stack = sexp_alloc_tagged(ctx, (sexp_sizeof(stack)+sizeof(sexp)*new_size),"), ("vm.c", "sexp_stack_length(stack) = new_size;"),
             ("eval.c", "stack = sexp_alloc_tagged(res, SEXP_STACK_SIZE, SEXP_STACK);"), ("eval.c", "#define SEXP_STACK_SIZE (sexp_sizeof(stack)+sizeof(sexp)*SEXP_INIT_STACK_SIZE)"), ("eval.c", "sexp_stack_length(stack) = SEXP_INIT_STACK_SIZE;"),
             ("sexp.c", "ptr = sexp_alloc_type(ctx, cpointer, type_id);"), ("sexp.c", "sexp_cpointer_length(ptr) = 0;")]


def prepare(tier):
    """list every fixed-size constructor site sexp_alloc_type(ctx, FIELD, SEXP_TAG) of the core into sites.h"""
    os.makedirs(GENDIR, exist_ok=True)
    sites = []
    for fn in ("sexp.c", "eval.c", "bignum.c", "vm.c"):
        for ln, line in enumerate(open(os.path.join(core.REPO, fn)), 1):
            for m in re.finditer(r"sexp_alloc_type\(\s*&?\w+\s*,\s*(\w+)\s*,\s*(SEXP_[A-Z_]+)\s*\)", line):
                sites.append((m.group(1), m.group(2), "%s:%d" % (fn, ln)))
    if len(sites) < 30:
        raise core.Undecided("C10 sizes must-fire: only %d sexp_alloc_type sites found (< 30)" % len(sites))
    for fn, frag in VAR_SITES:
        if frag not in open(os.path.join(core.REPO, fn)).read():
            raise core.Undecided("C10 sizes must-fire: constructor text %r no longer in %s (update harness/C10/sizes.c)" % (frag, fn))
    with open(os.path.join(GENDIR, "sites.h"), "w") as f:
        for field, tag, site in sites:
            # a variable-size type allocated at its base size: the site stores length 0 (sexp.c: the empty vector)
            pre = "sexp_vector_length((sexp)&obj) = 0; " if tag == "SEXP_VECTOR" else ""
            f.write('%sFIXED(%s, %s, "%s");\n' % (pre, field, tag, site))

FLAGS = ["-I@BUILD@/shim_small"]
BASE = {"label": "bounded", "harness": "harness/C10/heap.c", "flags": FLAGS, "stubs": ["sexp_allocated_bytes"], "stub_src": ["harness/C10/stubs.c"],
        "unwind": 12, "unwindset": "sexp_sweep.0:5,sexp_sweep.1:9,sexp_sweep.2:2,sexp_try_alloc.0:5,sexp_try_alloc.1:2", "min_obligations": 5, "timeout": 400, "mem_gb": 6,
        "assumptions": ["one heap segment of 8 cells of 32 bytes behind the free-list sentinel; layouts enumerated, mark bits / sizes within a cell / contents symbolic",
                        "sexp_allocated_bytes replaced by its contract (address -> requested size)"]}
# object positions per layout (item indices that are objects)
OBJ = {0: [0, 2, 3], 1: [0, 2, 4], 2: [1, 2, 4, 5], 3: [0, 1, 2, 3, 4], 4: [0, 1, 3, 4, 5], 5: [0]}
SWEEP_INST = []
for lay, objs in sorted(OBJ.items()):
    for combo in range(1 << len(objs)):
        m = 0
        for bit, k in enumerate(objs):
            if (combo >> bit) & 1:
                m |= 1 << k
        SWEEP_INST.append({"name": "lay%d_m%02x" % (lay, m), "defs": {"LAY": lay, "MARKS": m}})
GROUPS = [
 dict(BASE, name="sweep", entry="h_sweep", functions=["gc.c:sexp_sweep"], bound="6 layouts covering every coalescing case (left / right / both neighbours free, first chunk, last chunk, empty free list) x every mark-bit combination, enumerated (94 instances); object contents symbolic. The symbolic-mark formulation did not finish in 400 s on any back end.",
      instances=SWEEP_INST),
 dict(BASE, name="sweep_sym", entry="h_sweep", functions=["gc.c:sexp_sweep"], bound="the 6 layouts with all mark bits symbolic at once", timeout=600,
      instances=[{"name": "lay%d" % k, "defs": {"LAY": k}} for k in range(6)]),
 dict(BASE, name="try_alloc", entry="h_try_alloc", functions=["gc.c:sexp_try_alloc"], bound="the same 6 layouts x request sizes 32, 64, 96, 128 bytes (enumerated: CBMC's memset model havocs pointer-typed fields under a symbolic length)",
      instances=[{"name": "lay%d_r%d" % (k, r), "defs": {"LAY": k, "REQ": r}} for k in range(6) for r in (32, 64, 96, 128)]),
]
GROUPS += [
 {"label": "proved", "name": "sizes", "harness": "harness/C10/sizes.c", "flags": ["-I" + GENDIR], "units": [{"repo": "gc.c"}],
  "unwind": 50, "min_obligations": 5, "timeout": 300, "mem_gb": 4,
  "functions": ["gc.c:sexp_allocated_bytes", "sexp.c:_sexp_type_specs"],
  "assumptions": ["type objects are the spec entries of _sexp_type_specs copied as sexp_init_context_globals does (memcpy)",
                  "constructor sites: fixed-size ones listed by regex on every run; variable-size ones mirrored in the harness with their source text grepped on every run",
                  "length word below 2^40 (no wrap of the size arithmetic)"],
  "instances": [{"name": "fixed", "entry": "h_sizes_fixed"}, {"name": "var", "entry": "h_sizes_var"}]},
]
def replay_pres(spec, inputs, workdir):
    """the counterexample shape on the real interpreter: the list of the counterexample, then the operation, counting occurrences"""
    from vlib import native
    L = spec["defs"]["L"]; grp = spec.get("group")
    picks = [int(inputs.get("in_pick[%dl]" % j, inputs.get("in_pick[%d]" % j, "0"))) % 3 for j in range(L)]
    x = int(inputs.get("in_x", "0")) % 3
    ops = {"preserve": "sexp_preserve_object(ctx, o[x]); want = before + 1;",
           "release": "sexp_release_object(ctx, o[x]); want = before - (before > 0);",
           "preserve_release": "sexp_preserve_object(ctx, o[x]); sexp_preserve_object(ctx, o[x]); sexp_release_object(ctx, o[x]); want = before + 1;"}[grp]
    code = r"""
#include "chibi/eval.h"
static long count(sexp ctx, sexp x) { long n = 0; sexp ls; for (ls = sexp_global(ctx, SEXP_G_PRESERVATIVES); sexp_pairp(ls); ls = sexp_cdr(ls)) if (sexp_car(ls) == x) n++; return n; }
int main(void){ sexp ctx = sexp_make_eval_context(NULL, NULL, NULL, 0, 0); sexp o[3]; int picks[] = {%s -1}; int x = %d, j; long before, after, want;
  for (j = 0; j < 3; j++) { o[j] = sexp_cons(ctx, SEXP_ONE, SEXP_NULL); }
  for (j = 0; picks[j] >= 0; j++) sexp_preserve_object(ctx, o[picks[j]]);
  before = count(ctx, o[x]);
  %s
  after = count(ctx, o[x]);
  printf("%s: owners of x before=%%ld after=%%ld expected=%%ld\n", before, after, want);
  return after != want; }
""" % ("".join("%d, " % p for p in reversed(picks)), x, ops, grp)
    rc, o = native.run_driver(workdir, "replay_pres", code)
    return rc == 1, o


GROUPS.append({"label": "proved", "name": "alloc_policy", "harness": "harness/C10/alloc.c", "entry": "h_alloc", "flags": ["-I@BUILD@/shim_small"],
               "stubs": ["sexp_try_alloc", "sexp_gc", "sexp_heap_total_size", "sexp_grow_heap"], "stub_src": ["harness/C10/allocstubs.c"], "unwind": 4, "min_obligations": 6, "timeout": 300, "mem_gb": 4,
               "functions": ["gc.c:sexp_alloc"],
               "assumptions": ["sexp_try_alloc, sexp_gc, sexp_heap_total_size, sexp_grow_heap replaced by contract stubs with symbolic results (try_alloc and the collector are the subject of the other groups; sexp_grow_heap / sexp_make_heap call malloc / mmap and are not under contract)",
                               "sizes below 2^32 (the policy compares them through double arithmetic)"],
               "instances": [{"name": "all"}]})
PRES = {"replay": replay_pres, "label": "bounded", "harness": "harness/C10/preserve.c", "flags": ["-I@BUILD@/shim_small", "-DVERIF_KINDFOLD=1", "-DVM_NPAIRS=6"], "link_src": ["harness/C15/stubs.c"],
        "units": [{"repo": "gc.c"}], "unwind": 8, "min_obligations": 3, "timeout": 200, "mem_gb": 3,
        "bound": "preservatives list of 0..4 entries drawn (symbolically) from 3 distinct objects",
        "assumptions": ["sexp_cons replaced by its contract stub (fresh pair with the given car and cdr)"]}
GROUPS += [
 dict(PRES, name="preserve", entry="h_preserve", functions=["gc.c:sexp_preserve_object"], instances=[{"name": "L%d" % l, "defs": {"L": l}} for l in range(0, 5)]),
 dict(PRES, name="release", entry="h_release", functions=["gc.c:sexp_release_object"], instances=[{"name": "L%d" % l, "defs": {"L": l}} for l in range(0, 5)]),
 dict(PRES, name="preserve_release", entry="h_preserve_release", functions=["gc.c:sexp_preserve_object", "gc.c:sexp_release_object"], instances=[{"name": "L%d" % l, "defs": {"L": l}} for l in range(0, 3)]),
]
for g in GROUPS:
    if g["name"] == "sweep_sym":
        for i in g["instances"]:
            i["tiers"] = ["thorough"]
META = {
 "level": "other",
 "explanation": "bounded deductive check of sweep / first-fit allocation on enumerated small heaps (contents symbolic), plus an unbounded (loop-free, full length domain) proof that the size the sweep steps over equals the size every constructor site requested; the whole-history statement (heap stays within a constant multiple of the live bound) is not decided",
 "trusted_base": ["CBMC 6.11.0 (MiniSat)", "harness/prelude.h substitutions"],
 "assumptions": ["CBMC memset with a symbolic length havocs pointer-typed fields: the request size of try_alloc is enumerated instead (32..128 bytes)"],
 "not_covered": ["sexp_grow_heap / sexp_make_heap (mmap / malloc of a fresh segment, the size of the new segment) and the bound on total heap size over a whole history (the per-allocation growth decision of sexp_alloc is proved in group alloc_policy)",
                 "sexp_mark itself (reachability closure; every slot of a live object designates a live object): the mark bits are inputs of the sweep contract",
                 "multi-segment heap chains (one segment in every instance)", "heaps larger than 8 cells; objects larger than 8 cells",
                 "conservative stack scanning, fixed-chunk-size heaps, SEXP_USE_MALLOC / Boehm configurations"],
}
