GROUPS = [
 {"name": "codec", "label": "proved", "harness": "harness/C12/codec.c", "entry": "h_codec",
  "functions": ["sexp.c:sexp_utf8_char_byte_count", "sexp.c:sexp_utf8_initial_byte_count",
                "sexp.c:sexp_utf8_encode_char", "sexp.c:sexp_string_utf8_ref"],
  "unwind": 6, "stubs": ["sexp_user_exception"], "min_obligations": 20, "timeout": 120,
  "instances": [{"name": "w%d" % w, "defs": {"W": w}} for w in (1, 2, 3, 4)]},
]
META = {}
