GROUPS = [
 {"name": "codec", "label": "proved", "harness": "harness/C12/codec.c", "entry": "h_codec",
  "functions": ["sexp.c:sexp_utf8_char_byte_count", "sexp.c:sexp_utf8_initial_byte_count",
                "sexp.c:sexp_utf8_encode_char", "sexp.c:sexp_string_utf8_ref"],
  "unwind": 6, "stubs": ["sexp_user_exception"], "min_obligations": 20, "timeout": 120,
  "instances": [{"name": "w%d" % w, "defs": {"W": w}} for w in (1, 2, 3, 4)]},
]
FLAGS = ["-I@BUILD@/shim_small", "-DVERIF_KINDFOLD=1"]
STR = {"label": "bounded", "harness": "harness/C12/strings.c", "flags": FLAGS,
       "stubs": ["sexp_user_exception", "sexp_type_exception", "sexp_xtype_exception", "sexp_range_exception", "sexp_make_exception", "sexp_alloc_tagged_aux"],
       "stub_src": ["harness/stubs.c", "harness/C12/strstubs.c"], "unwind": 12, "min_obligations": 5, "timeout": 300, "mem_gb": 4,
       "assumptions": ["strings of up to 3 characters; the UTF-8 width of each character is a constant of the instance, the scalar values are symbolic",
                       "sexp_alloc / sexp_alloc_tagged are alloc_plain stubs returning objects of exactly the requested size; exception constructors are contract stubs"]}
import itertools
PAT = [(1, 0, 0), (2, 0, 0), (3, 0, 0), (4, 0, 0), (1, 2, 0), (2, 1, 0), (3, 4, 0), (4, 1, 3), (1, 1, 1), (2, 3, 4)]


def pat_instances(extra=None, quick=6):
    out = []
    for n, (a, b, c) in enumerate(PAT):
        d = {"W1": a, "W2": b, "W3": c}
        d.update(extra or {})
        out.append({"name": "w%d%d%d" % (a, b, c), "defs": d, "tiers": ["quick", "thorough"] if n < quick else ["thorough"]})
    return out


def set_instances():
    out = []
    for (a, b, c) in [(1, 0, 0), (2, 0, 0), (1, 2, 0), (3, 1, 0), (1, 4, 2)]:
        nch = (a > 0) + (b > 0) + (c > 0)
        for pos in range(nch):
            for nw in (1, 2, 3, 4):
                for off in (0, 2):
                    for cow in (0, 1):
                        quick = (a, b, c) in [(1, 0, 0), (1, 2, 0)] and nw in (1, 3) 
                        out.append({"name": "w%d%d%d_p%d_n%d_o%d_c%d" % (a, b, c, pos, nw, off, cow),
                                    "defs": {"W1": a, "W2": b, "W3": c, "POS": pos, "NW": nw, "OFF": off, "COW": cow},
                                    "tiers": ["quick", "thorough"] if quick else ["thorough"]})
    return out


GROUPS.append(dict(STR, name="length_cursor", entry="h_length_cursor", instances=pat_instances(),
                   functions=["sexp.c:sexp_string_utf8_length", "sexp.c:sexp_string_index_to_cursor", "sexp.c:sexp_string_cursor_to_index", "sexp.c:sexp_string_utf8_ref"],
                   bound="10 width patterns of 1..3 characters (quick: 6); index symbolic over all fixnums"))
GROUPS.append(dict(STR, name="string_set", entry="h_string_set", instances=set_instances(),
                   functions=["eval.c:sexp_string_utf8_set"],
                   bound="5 width patterns x every position x replacement width 1..4 x string offset {0,2} x copy-on-write {0,1} (quick: 2 patterns, widths 1 and 3)"))
GROUPS.append(dict(STR, name="utf8_to_string", entry="h_utf8_to_string", instances=pat_instances(None, 2),
                   functions=["lib/chibi/io/port.c:sexp_utf8_to_string_x", "lib/chibi/io/port.c:sexp_bytes_to_string"],
                   bound="bytevectors of 2..9 bytes; start and end symbolic over all fixnums"))
GROUPS.append(dict(STR, name="concatenate", entry="h_concatenate", unwind=16,
                   instances=[{"name": "w%d%d%d_sep%d" % (a, b, c, sw), "defs": {"W1": a, "W2": b, "W3": c, "SW": sw},
                               "tiers": ["quick", "thorough"] if (a, b, c) in [(1, 0, 0), (2, 1, 0)] else ["thorough"]}
                              for (a, b, c) in [(1, 0, 0), (2, 1, 0), (3, 4, 0), (1, 1, 1)] for sw in (1, 2, 3, 4)],
                   functions=["sexp.c:sexp_string_concatenate_op", "sexp.c:sexp_make_string_op", "sexp.c:sexp_make_bytes_op"],
                   bound="two strings of 1..3 characters joined by a one-character separator of every UTF-8 width"))
# `end < start` in sexp_substring_op compares two string cursors (tagged immediates held in sexp variables) with a pointer
# relation; CBMC's pointer-relation check has no object for them and leaves every later obligation UNKNOWN.  Pointer checks are
# therefore off in the substring groups; the memcpy preconditions (source readable, destination writable for the copied length)
# are built-in assertions of CBMC's memcpy model and stay on.
SUB_CBMC = ["--drop-unused-functions", "--no-signed-overflow-check", "--max-field-sensitivity-array-size", "128", "--no-pointer-check"]
SUB_ASSUME = ["relational comparison of two tagged immediates held in sexp variables is the integer comparison of their bits (what GCC does); CBMC's pointer checks are off in this group, the memcpy model's own bounds preconditions stay on"]


def sub_instances(by_index):
    out = []
    for (a, b, c) in [(1, 0, 0), (2, 1, 0), (3, 4, 1)]:
        nch = (a > 0) + (b > 0) + (c > 0)
        for st in range(nch + 1):
            for en in range(st, nch + 1):
                if en == st and st > 0:
                    continue
                d = {"W1": a, "W2": b, "W3": c, "SUB_S": st, "SUB_E": en}
                if by_index:
                    d["BY_INDEX"] = 1
                out.append({"name": "w%d%d%d_%d_%d" % (a, b, c, st, en), "defs": d, "tiers": ["quick", "thorough"] if (a, b, c) != (3, 4, 1) or (st, en) in ((1, 3), (0, 2)) else ["thorough"]})
    return out


GROUPS.append(dict(STR, name="substring", entry="h_substring", unwind=16, instances=sub_instances(0), cbmc=SUB_CBMC, assumptions=STR.get("assumptions", []) + SUB_ASSUME,
                   functions=["sexp.c:sexp_substring_op", "sexp.c:sexp_make_string_op", "sexp.c:sexp_make_bytes_op"],
                   bound="strings of 1..3 characters (3 width patterns), every character range [start, end) enumerated; scalar values symbolic"))
GROUPS.append(dict(STR, name="substring_index", entry="h_substring", unwind=16, instances=sub_instances(1), cbmc=SUB_CBMC, assumptions=STR.get("assumptions", []) + SUB_ASSUME,
                   functions=["sexp.c:sexp_utf8_substring_op", "sexp.c:sexp_string_index_to_cursor", "sexp.c:sexp_substring_op"],
                   bound="the same ranges given as character indices"))
GROUPS.append(dict(STR, name="substring_range", entry="h_substring_range", unwind=16, cbmc=SUB_CBMC, assumptions=STR.get("assumptions", []) + SUB_ASSUME,
                   instances=[{"name": "w%d%d%d" % p, "defs": {"W1": p[0], "W2": p[1], "W3": p[2], "SUB_S": 0, "SUB_E": 0}} for p in [(1, 0, 0), (2, 1, 0), (3, 4, 1)]],
                   functions=["sexp.c:sexp_substring_op(range check)"], bound="cursors symbolic in -4 .. size+4"))
META = {
 "level": "other",
 "explanation": 'mixed: the UTF-8 codec functions are proved for all scalar values; cursor/index conversion, string-set!, utf8->string! and concatenation are bounded by string shape (byte lengths enumerated, contents symbolic).',
 "trusted_base": ["CBMC 6.11.0 front end and SAT back end", "harness/prelude.h substitutions incl. kind tests on registered objects", "the independent strict UTF-8 decoder / encoder of the harness (RFC 3629) as the abstract view"],
 "assumptions": ["bounded groups: strings of up to 3 characters, UTF-8 width of each character enumerated per instance, scalar values symbolic"],
 "not_covered": ["sexp_string_to_utf8, sexp_c_string, string ports, string comparison", "cursor opcodes (range checks are under C01)",
                 "Scheme side: string-copy!, string-fill!, (chibi string), SRFI 130", "integer->char of non-scalar values (no range check in the opcode)"],
}
