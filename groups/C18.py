"""C18 groups: lib/srfi/95/qsort.c (C core of the sort)."""
from vlib import native
FLAGS = ["-I@BUILD@/shim_small", "-DVERIF_KINDFOLD=1"]


def replay_sort(spec, inputs, workdir):
    """The counterexample's keys as a vector of flonums in a real context; (sort! vec (lambda (a b) (< a b)))."""
    n = spec["defs"]["N"]
    keys = [int(inputs.get("in_key[%dl]" % k, 0)) for k in range(n)]
    grp = spec["group"]
    less = '(lambda (a b) (< a b))' if grp != "merge_sort" else None
    code = r"""
#include "chibi/eval.h"
#include "lib/srfi/95/qsort.c"
int main(void){ sexp ctx = sexp_make_eval_context(NULL, NULL, NULL, 0, 0);
  sexp_gc_var3(vec, less, r); sexp_gc_preserve3(ctx, vec, less, r);
  vec = sexp_make_vector(ctx, sexp_make_fixnum(%d), SEXP_VOID);
  double keys[] = {%s};
  for (int k = 0; k < %d; k++) sexp_vector_data(vec)[k] = sexp_make_flonum(ctx, keys[k]);
  less = %s;
  r = sexp_sort_x(ctx, SEXP_FALSE, 3, vec, less, SEXP_FALSE);
  if (!sexp_vectorp(r)) { printf("R not-a-vector\n"); return 0; }
  printf("R");
  for (int k = 0; k < (int)sexp_vector_length(r); k++) { sexp e = sexp_vector_data(r)[k]; if (sexp_flonump(e)) printf(" %%g", sexp_flonum_value(e)); else printf(" X"); }
  printf("\n"); return 0; }
""" % (n, ",".join("%d.0" % k for k in keys) or "0", n, ('sexp_eval_string(ctx, "%s", -1, NULL)' % less) if less else "SEXP_FALSE")
    rc, o = native.run_driver(workdir, "replay_sort", code, ldflags=["-Wl,--allow-multiple-definition"])   # qsort.c is its own shared object in the real build (huffman tables defined twice)
    line = [l for l in o.splitlines() if l.startswith("R")]
    want = " ".join("%g" % float(k) for k in sorted(keys))
    txt = "(sort! #(%s) %s)\nnative: %s\nexpected: R %s\n" % (" ".join("%d.0" % k for k in keys), less or "<default>", o.strip()[-300:], want)
    if rc != 0 or not line:
        return ("AddressSanitizer" in o), txt
    return line[0] != "R " + want and line[0] != "R" + (" " + want if want else ""), txt

BASE = {"label": "bounded", "harness": "harness/C18/sort.c", "flags": FLAGS, "link_src": ["harness/C18/stubs.c"],
        "replay": replay_sort, "unwind": 12, "unwindset": "sexp_merge_sort:4,sexp_merge_sort_less:4,sexp_object_compare:2", "min_obligations": 5, "timeout": 300, "mem_gb": 4,
        "assumptions": ["the comparator procedure is a stub for sexp_apply that orders elements by a ghost key (a consistent strict weak order); exception constructors and vector allocation are contract stubs",
                        "elements are distinct flonum objects with keys in 0..3 (ties exist)"]}


def ns(lo, hi, q):
    return [{"name": "n%d" % n, "defs": {"N": n}, "tiers": ["quick", "thorough"] if n <= q else ["thorough"]} for n in range(lo, hi + 1)]


GROUPS = [
 dict(BASE, name="merge_sort", entry="h_merge_sort", functions=["lib/srfi/95/qsort.c:sexp_merge_sort", "lib/srfi/95/qsort.c:sexp_object_compare(flonum arm)"],
      bound="vectors of 1..6 elements (quick <= 5): every switch arm (1, 2, 3, >= 4 elements) and one or two merge levels", instances=ns(1, 6, 5)),
 dict(BASE, name="merge_sort_less", entry="h_merge_sort_less", functions=["lib/srfi/95/qsort.c:sexp_merge_sort_less"],
      bound="vectors of 1..6 elements (quick <= 5)", instances=ns(1, 6, 5)),
 dict(BASE, name="merge_sort_key", entry="h_merge_sort_key", flags=FLAGS + ["-DVERIF_GC=1", "-DVM_NPAIRS=6"], functions=["lib/srfi/95/qsort.c:sexp_merge_sort_less(key procedure, root discipline)"],
      bound="vectors of 1..2 elements (one comparison: two key objects and the argument list fill the 6-pair pool of the adversarial collector)", instances=ns(1, 2, 2), unwindset=BASE["unwindset"] + ",vm_root_holds.0:100",
      assumptions=BASE["assumptions"] + ["adversarial collector of harness/vm/vm.h: a collection at every application of the key or comparator procedure reclaims and havocs every pool pair not reachable from ctx->saves"]),
 dict(BASE, name="sort_x_inverse", entry="h_sort_x_inverse", functions=["lib/srfi/95/qsort.c:sexp_sort_x(built-in comparison, inverse opcode)", "lib/srfi/95/qsort.c:sexp_merge_sort", "lib/srfi/95/qsort.c:sexp_vector_nreverse"],
      bound="vectors of 1..5 elements (quick <= 4), comparator the > opcode, no key", instances=ns(1, 5, 4)),
 dict(BASE, name="sort_x", entry="h_sort_x", functions=["lib/srfi/95/qsort.c:sexp_sort_x"], bound="vectors of 1..5 elements (quick <= 4), procedure comparator, no key", instances=ns(1, 5, 4)),
]
META = {
 "level": "other",
 "explanation": "bounded deductive check: ordered, permutation and stability obligations over vectors of enumerated length (elements symbolic); no unbounded obligation is claimed",
 "trusted_base": ["CBMC 6.11.0", "harness/prelude.h substitutions incl. kind tests on registered objects"],
 "assumptions": [],
 "not_covered": ["list inputs (sexp_list_to_vector / sexp_vector_copy_to_list)", "key procedures (the if_is_less macro's key branch and its GC roots)", "sexp_object_compare beyond flonums (strings, symbols, pairs, vectors, mixed numeric types)", "inverse comparators (nreverse)",
                 "SRFI 132 / 1 / 133 / 113 / 146 / 101 / 117 / 134 and (chibi iset): Scheme code"],
}
