"""C02 groups: GC never reclaims data the program can still reach (C side: root discipline)."""
from groups import C04 as c04
GCF = ["-I@BUILD@/shim_small", "-DVERIF_KINDFOLD=1", "-DVERIF_GC=1"]
BASE = {"harness": "harness/C02/bignum_gc.c", "label": "bounded", "flags": GCF,
        "stubs": ["sexp_bignum_hi", "sexp_copy_bignum"], "stub_src": ["harness/C04/stubs.c"], "unwind": 14,
        "unwindset": "sexp_bignum_add_digits:2,sexp_bignum_sub_digits:2", "min_obligations": 5, "timeout": 240, "mem_gb": 3,
        "assumptions": ["alloc_gc: a collection at every allocation reclaims and havocs every pool object not held by a variable on ctx->saves and not caller-rooted (operands are caller-rooted)",
                        "sexp_bignum_hi / sexp_copy_bignum replaced by their contracts (copy allocates through the same collector)"]}
T1 = [(1, 1), (2, 2)]
GROUPS = [
 dict(BASE, name="fxmul", entry="h_fxmul", functions=["bignum.c:sexp_bignum_fxmul"], bound="operand of 1 or 2 words; words, sign, multiplier symbolic",
      instances=[{"name": "a%d_%d" % s, "defs": {"LA": s[0], "HA": s[1], "LB": 1, "HB": 1, "VERIF_UF_MUL": 1}} for s in T1]),
 dict(BASE, name="add_fixnum", entry="h_add_fixnum", functions=["bignum.c:sexp_bignum_add_fixnum"], bound="operand of 1 or 2 words",
      stubs=["sexp_bignum_hi", "sexp_copy_bignum", "sexp_bignum_fxadd", "sexp_bignum_fxsub"],
      instances=[{"name": "a%d_%d" % s, "defs": {"LA": s[0], "HA": s[1], "LB": 1, "HB": 1}} for s in T1]),
 dict(BASE, name="add_digits", entry="h_add_digits", functions=["bignum.c:sexp_bignum_add_digits"], bound="operands of 1 or 2 words",
      instances=[{"name": "a%d_b%d" % (sa[0], sb[0]), "defs": {"LA": sa[0], "HA": sa[1], "LB": sb[0], "HB": sb[1]}} for sa in T1 for sb in T1]),
 dict(BASE, name="sub_digits", entry="h_sub_digits", functions=["bignum.c:sexp_bignum_sub_digits"], bound="operands of 1 or 2 words",
      instances=[{"name": "a%d_b%d" % (sa[0], sb[0]), "defs": {"LA": sa[0], "HA": sa[1], "LB": sb[0], "HB": sb[1]}} for sa in T1 for sb in T1]),
]
import os
from vlib import core, vmextract
from groups import C01 as c01
VMF = ["-I@BUILD@/shim_small", "-DVERIF_KINDFOLD=1", "-DVERIF_GC=1"]
VMDIR = os.path.join(core.BUILD, "C02", "vm")


from vlib import gcbalance
BALDIR = os.path.join(core.BUILD, "C02", "bal")
BAL_FILES = ["sexp.c", "eval.c", "bignum.c", "vm.c", "lib/srfi/69/hash.c", "lib/srfi/95/qsort.c", "lib/srfi/18/threads.c", "lib/srfi/39/param.c", "lib/srfi/151/bit.c", "lib/chibi/weak.c", "lib/chibi/ast.c"]
BAL_SKIP = {"sexp_apply": "the VM loop registers self/tmp1/tmp2 once and releases them at end_loop; its opcode bodies are checked one by one (vmextract re-creates the registration)",
            "sexp_update_string_index_lookup": "not compiled in the default configuration (SEXP_USE_STRING_INDEX_TABLE off)",
            "sexp_user_exception_ls": "variadic: no harness generated",
            "generate_tail_jump": "not compiled in the default configuration",
            **{f: "recursive and large: the instance did not finish within 30 minutes / 5 GB in the thorough tier (not under contract)" for f in
               ("sexp_write_one", "sexp_read_number", "sexp_read_raw", "analyze_lambda", "analyze", "sexp_free_vars", "sexp_quotient", "sexp_compare", "sexp_merge_sort_less")},
            "sexp_init_library": "library initialisation entry point (takes the ABI identifier, an array type, by value); runs once at load time"}
BAL_UNWIND = {"sexp_init_context_globals": 64, "sexp_make_null_env_op": 40}      # runs fixed-count initialisation loops to their end before it returns
BAL_SLOW = {"sexp_init_context_globals", "sexp_strip_synclos_bound"}      # thorough tier only


def prepare(tier):
    vmextract.write_ops(VMDIR, ["CONS", "CALLCC", "RESUMECC"], [f.replace("@BUILD@", core.BUILD) for f in VMF])
    # the balance harnesses are regenerated from the current sources on every run; the instance lists below were
    # computed at import time from the same sources, a mismatch is reported by the must-fire rule of havoc_keep
    for rel in BAL_FILES:
        gcbalance.generate(BALDIR, rel, BAL_SKIP)


def _bal_groups():
    out = []
    total = 0
    for rel in BAL_FILES:
        try:
            fns = [n for n, _ in gcbalance.functions(os.path.join(core.REPO, rel)) if n not in BAL_SKIP]
        except OSError:
            fns = []
        total += len(fns)
        if not fns:
            continue
        tag = rel.replace("/", "_").replace(".c", "")
        out.append({"name": "gc_balance_" + tag, "label": "bounded", "harness": os.path.join(BALDIR, "gcbal_" + __import__("re").sub(r"\W", "_", rel) + ".c"),
                    "flags": ["-I@BUILD@/shim_small"], "cbmc": ["--no-standard-checks", "--drop-unused-functions"], "unwind": 3, "unwinding_assertions": False,
                    "min_obligations": 1, "timeout": 120, "mem_gb": 2,
                    "ignore_desc_re": "no candidates for dereferenced function pointer",      # a call through an arbitrary function pointer: artefact of the arbitrary arguments
                    "functions": [rel + ":" + f for f in fns],
                    "bound": "every loop of the function under contract unrolled twice without unwinding assertion (longer iterations are not explored); arguments and all memory they point to arbitrary",
                    "assumptions": ["every callee returns an arbitrary value and leaves the save chain as it found it (the contract being checked, assumed for callees; generated by goto-instrument --generate-function-body nondet-return)",
                                    "pointer arguments are arbitrary addresses; reads through them return arbitrary values (standard pointer checks off: only the balance assertion is decided here)"],
                    "instances": [dict({"name": f, "entry": "h_bal_" + f, "havoc_keep": [f]}, **(dict(unwind=BAL_UNWIND[f]) if f in BAL_UNWIND else {}), **(dict(tiers=["thorough"], timeout=900, timeout_thorough=1800) if f in BAL_SLOW else {})) for f in fns]})
    return out


GROUPS.append({"name": "vm_cons", "label": "proved", "harness": "harness/C02/vm_gc.c", "entry": "h_cons_gc", "flags": VMF + ["-I@BUILD@/C02/vm"],
               "link_src": ["harness/vm/stubs.c"], "units": [{"repo": "sexp.c", "remove_bodies": c01.SEXP_STUBBED}], "unwind": 100, "min_obligations": 5, "timeout": 240, "mem_gb": 3,
               "functions": ["vm.c:sexp_apply:case SEXP_OP_CONS"],
               "bound": "none for the opcode body (loop-free); the previously published top is arbitrary up to the frame header",
               "assumptions": ["alloc_gc on the VM side: sexp_cons runs a collection whose roots are the stack below the published top and the variables on ctx->saves (self, tmp1, tmp2 re-registered around the extracted body)"],
               "instances": [{"name": "heap_operands"}]})
GROUPS.append({"name": "vm_callcc", "label": "bounded", "harness": "harness/C06/cont.c", "entry": "h_callcc_resume", "flags": VMF + ["-I@BUILD@/C02/vm"],
               "link_src": ["harness/vm/stubs.c"], "units": [{"repo": "sexp.c", "remove_bodies": c01.SEXP_STUBBED}], "unwind": 100, "min_obligations": 10, "timeout": 300, "mem_gb": 4,
               "functions": ["vm.c:sexp_apply:case SEXP_OP_CALLCC (root discipline)", "vm.c:sexp_save_stack"],
               "bound": "live stack of 13 or 14 slots; contents symbolic",
               "assumptions": ["alloc_gc on the VM side in sexp_make_vector / sexp_make_procedure (roots: stack below the published top, self/tmp1/tmp2 on ctx->saves, closure through tracked vectors and pairs)"],
               "instances": [{"name": "nt%d" % nt, "defs": {"NT": nt, "CAPTURE_ONLY": 1}} for nt in (0, 1)]})
GROUPS.append({"name": "preserve_macros", "label": "proved", "harness": "harness/C02/preserve_macros.c", "entry": "h_preserve_macros", "flags": ["-I@BUILD@/shim_small"], "unwind": 12,
               "min_obligations": 20, "timeout": 120, "mem_gb": 2, "functions": ["include/chibi/sexp.h:sexp_gc_preserve1..7", "include/chibi/sexp.h:sexp_gc_release1..7"],
               "assumptions": [], "instances": [{"name": "n1_7"}]})
GROUPS += _bal_groups()
META = {
 "level": "other",
 "explanation": 'mixed: the VM CONS opcode and the root-registration macros are proved without bound; the root discipline of the bignum functions and of call/cc capture under the adversarial collector is bounded by operand shape, and the save-chain balance of ~170 functions is bounded (loops unrolled twice). No unbounded statement over all allocating code is claimed.',
 "trusted_base": ["CBMC 6.11.0 front end and SAT back end", "the adversarial collector of harness/bn.h and harness/vm/vm.h (harness code): reclaims and havocs every tracked object not reachable from the registered roots at EVERY allocation",
                  "vlib/vmextract.py opcode extraction (re-creates sexp_apply's root registration of self/tmp1/tmp2 around each body)"],
 "assumptions": ["arguments are caller-rooted", "reachability is exact for the tracked object kinds (bignums hold no references; pairs and the two continuation vectors are traced)",
                 "a reclaimed object is detected by consequence: its storage becomes arbitrary, so a later use breaks a safety or functional obligation, and returning it breaks gc.result_live"],
 "not_covered": ["gc_balance skips (with reasons, BAL_SKIP in groups/C02.py): sexp_apply, sexp_write_one, sexp_read_number, sexp_read_raw, analyze, analyze_lambda, sexp_free_vars, sexp_quotient, sexp_compare, sexp_merge_sort_less, variadic and library-initialisation functions",
                 "gc_balance decides only that every function leaves the save chain as it found it (no dangling or dropped registration); whether each live local IS registered at every allocation is decided only for the functions of the adversarial-collector groups",
                 "the collector itself (mark phase) - see C10 / C16 for sweep, allocation and the weak pass", "allocating functions not listed under functions_under_contract (most of bignum.c beyond fxmul/add_fixnum/add_digits/sub_digits incl. Karatsuba sexp_bignum_mul with its 7 preserved variables, quot_rem, expt, sqrt; sexp.c constructors; eval.c; hash.c; qsort.c; json.c; port.c)",
                 "the reader and the compiler (sexp_read_raw, generate_* literal preservation)", "generated FFI stubs", "Scheme-level code"],
}
