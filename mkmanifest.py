#!/usr/bin/env python3
"""Regenerates MANIFEST.json from manifest_src.py (claims + not_applicable)."""
import json, importlib, os, sys
sys.path.insert(0, os.path.dirname(os.path.abspath(__file__)))
import manifest_src as M
checks = []
for pid, c in sorted(M.CLAIMS.items()):
    checks.append({
        "property_id": pid,
        "quick_cmd": "./check %s --tier quick" % pid,
        "thorough_cmd": "./check %s --tier thorough" % pid,
        "evidence_file": "evidence/%s.json" % pid,
        "replay_cmd_template": "./check %s --replay {path}" % pid,
        "engine": "cbmc-contracts",
        "level_claimed": {"category": c["category"], "text": c["text"], "design_ref": c.get("design_ref", "DESIGN.md section 2, " + pid)},
        "level_note": c["note"],
        "technique": c["technique"],
    })
man = {
    "version": 1,
    "setup_cmd": "./setup.sh",
    "hooks": {"guard": "SEXP_USE_VERIF_HOOKS", "enable": "none needed: contracts are attached from harness translation units, /repo sources are read unmodified (no hook commits)",
              "baseline_off_cmd": "cd /repo && cmake -G Ninja -B _build -DCMAKE_BUILD_TYPE=RelWithDebInfo >/dev/null && cmake --build _build >/dev/null && ctest --test-dir _build -j8 --timeout 900",
              "source_commits": [], "add_only": True},
    "engines": [{"name": "cbmc-contracts", "path": "check", "serves_properties": sorted(M.CLAIMS),
                 "kind_free_text": "contract-based deductive verification of the real C code with CBMC 6.11 (goto-cc, goto-instrument --dfcc, cbmc SAT); harness TUs attach contracts to unmodified /repo sources"}],
    "checks": checks,
    "notes": M.NOTES,
    "not_applicable": [{"property_id": k, "reason": v} for k, v in sorted(M.NOT_APPLICABLE.items())],
}
json.dump(man, open(os.path.join(os.path.dirname(os.path.abspath(__file__)), "MANIFEST.json"), "w"), indent=1)
print("MANIFEST.json: %d checks, %d not applicable" % (len(checks), len(man["not_applicable"])))
