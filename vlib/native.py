"""Native replay: compile a small driver against /repo's current working tree
(gcc -O0 -g -fsanitize=address) and run it.  A driver that must reach a static
function #includes the repository file that defines it; the remaining core
files are linked as they are."""
import os, subprocess
from . import core

CORE = ["sexp.c", "gc.c", "bignum.c", "eval.c", "vm.c", "opcodes.c", "simplify.c", "gc_heap.c"]


def run_driver(workdir, name, code, include_c=(), extra_c=(), args=(), asan=True, timeout=60, ldflags=()):
    """include_c: repo-relative .c files the driver #includes itself (not linked again).
    returns (rc, output)"""
    core.prepare()
    os.makedirs(workdir, exist_ok=True)
    src = os.path.join(workdir, name + ".c")
    with open(src, "w") as f:
        f.write(code)
    exe = os.path.join(workdir, name)
    link = [os.path.join(core.REPO, c) for c in CORE if c not in include_c]
    link += [os.path.join(core.REPO, c) for c in extra_c]
    cmd = ["gcc", "-O0", "-g", "-w"] + (["-fsanitize=address", "-fno-omit-frame-pointer"] if asan else []) + \
        [d for d in core.CDEFS if d != "-DVERIF_CBMC=1"] + \
        ["-I" + os.path.join(core.REPO, "include"), "-I" + core.GENINC, "-I" + core.REPO, src] + link + ["-o", exe, "-lm", "-ldl"] + list(ldflags)
    rc, o, _ = core.sh(cmd, timeout=180)
    if rc != 0:
        return -1, "native driver does not compile:\n" + o[-3000:]
    env_cmd = [exe] + [str(a) for a in args]
    os.environ["ASAN_OPTIONS"] = "detect_leaks=0:detect_odr_violation=0"
    rc, o, _ = core.sh(env_cmd, timeout=timeout)
    return rc, o
